"""C07 - signal events deliver every signal and restore the prior disposition (Signals.tla, binding G)."""
import json
import vkit

def gen(chk, name, mech, pa, pb, D, simulate, seed, acts, sops, evs=(1, 2, 3, 4)):
    c = {"Mech": mech, "PriorA": pa, "PriorB": pb, "Acts": set(acts), "ScriptOps": set(sops), "D": D, "Evs": set(evs)}
    cfg = vkit.write_cfg(name, c, invariants=["Inv", "Emit"], constraint="GenConstraint")
    hs, seen = [], set()
    def sink(v):
        k = json.dumps([{x: y for x, y in s.items() if x != "o"} for s in v], sort_keys=True)
        if k not in seen:
            seen.add(k); hs.append(v)
    res = vkit.tlc("Signals", cfg, simulate=simulate, depth=200 if simulate else None, seed=seed if simulate else None,
                   print_sink=sink, workers=8 if simulate else None, timeout=600)
    chk.add_tlc(name, res)
    return hs

def run(tier, seed):
    q = tier == "quick"
    chk = vkit.Check("C07", tier, seed)
    exe = vkit.cc("signals_drv", ["signals_drv.c"], vclock=True)
    A = ["add", "del", "raise", "loop", "script", "basefree", "reinit"]
    S = ["del", "raise", "add"]
    combos = [("selfpipe", "dfl", "custom"), ("selfpipe", "ign", "dfl"), ("signalfd", "custom", "custom")]
    backends = ["epoll"] if q else ["epoll", "poll", "select"]
    hist = {}
    for (mech, pa, pb) in combos:
        hs = gen(chk, "C07_exh_%s_%s" % (mech, pa), mech, pa, pb, 3, None, seed, ["add", "del", "raise", "loop", "basefree", "reinit"], [])
        # exhaustive script family on signal A's two events (one persistent, one not): every history of 6 calls over
        # add / raise / script(del) / loop - includes a self-delete in the middle of a coalesced batch of deliveries
        hs += gen(chk, "C07_exh_scr_%s_%s" % (mech, pa), mech, pa, pb, 6, None, seed, ["add", "raise", "loop", "script"], ["del"], evs=(1, 2))
        # script-heavy: deletes (incl. self-delete inside an ncalls batch) and raises from inside callbacks
        hs += gen(chk, "C07_scr_%s_%s" % (mech, pa), mech, pa, pb, 7 if q else 9, 60 if q else 500, seed + 1,
                  ["add", "raise", "loop", "script"], ["del"])
        hs += gen(chk, "C07_rand_%s_%s" % (mech, pa), mech, pa, pb, 12 if q else 18, 60 if q else 600, seed, A, S)
        if len(hs) < 20:
            raise vkit.InfraError("too few histories")
        for h in hs:
            chk.count_case([mech, pa, pb] + [{x: y for x, y in s.items() if x != "o"} for s in h], len(h) >= 2)
            for s in h:
                k = s["a"] + (":" + s["s"]["a"] if s["a"] == "script" else "")
                hist[k] = hist.get(k, 0) + 1
                if s["a"] == "loop" and s["o"]["cb"]:
                    hist["cb"] = hist.get("cb", 0) + len(s["o"]["cb"])
        chk.sample({"mech": mech, "priors": [pa, pb], "history": [{x: y for x, y in s.items() if x != "o"} for s in hs[-1]],
                    "predicted_last": hs[-1][-1]["o"]})
        for be in backends:
            dc = {"mech": mech, "priorA": pa, "priorB": pb, "backend": be}
            outs = vkit.run_driver(exe, [{"cfg": dc, "h": h} for h in hs])
            chk.cov["traces_validated_against_impl"] += len(hs)
            fails = vkit.compare_histories(hs, outs)
            for (i, k, msg) in fails[:5]:
                chk.violation("%s/%s/%s backend=%s scenario %d step %d: %s" % (mech, pa, pb, be, i, k, msg),
                              {"cfg": dc, "h": hs[i], "fail_step": k}, key=None)
    chk.cov["op_histogram"] = hist
    for need in ("add", "del", "raise", "loop", "basefree", "reinit", "script:del", "script:raise", "cb"):
        if not hist.get(need):
            raise vkit.InfraError("vacuous corpus: no " + need)
    chk.cov["rule"] = ("TLC enumerates all histories of 3 calls and simulates long ones over add/del/raise/loop/base-free on 4 signal events "
                       "(2 signals x 2 events, one non-persistent) with one-shot callback scripts (del/add/raise from inside callbacks), for the "
                       "self-pipe and signalfd mechanisms and dfl/ign/custom prior dispositions; real signals are raised synchronously and after "
                       "every call the installed handler and blocked state of both signals (sigaction/sigprocmask), event_pending and the callbacks "
                       "per loop iteration with their invocation counts (1 <= n <= deliveries) are compared with the model.")
    chk.assumptions += ["signalfd runs use a custom prior handler (a default-disposition signal left pending at del would terminate the process)",
                        "under signalfd two different signals are never pending together (their report order is unspecified)",
                        "fork + event_reinit is covered by C11"]
    return chk.finish()
