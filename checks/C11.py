"""C11 - events keep working in a forked child after event_reinit (EventCore.tla + Fork.tla, binding G with a real fork)."""
import copy, json, random
import vkit
from checks import eventcore_common as ec

A = ec.ALL_ACTS | {"flags", "addc", "initc", "exit"}


def fork_points(h):
    """indices k (1..len-1) where a fork may be inserted before step k: no signal pending (a delivery
    made before the fork belongs to the parent only)."""
    ok, pend = [], False
    for k, s in enumerate(h):
        if k >= 1 and not pend:
            ok.append(k)
        if s["a"] == "raise":
            pend = True
        elif s["a"] == "loop":
            pend = False
    return ok


def base_obs(o):
    return {k: v for k, v in o.items() if k not in ("cb", "bl", "it", "r")}


def run(tier, seed):
    q = tier == "quick"
    rnd = random.Random(seed)
    chk = vkit.Check("C11", tier, seed)
    res = vkit.tlc("Fork", "Fork_MC", want_prints=False, timeout=300)
    chk.add_tlc("Fork_MC", res)
    exe = vkit.cc("eventcore_drv", ["eventcore_drv.c"], vclock=True)
    c = ec.consts({1, 2, 3, 4, 5}, A, 10 if q else 16, durs=(0, 1, 2))
    hs = ec.generate(chk, "C11_gen", c, simulate=40 if q else 400, depth=500, seed=seed, invariants=ec.INV_LIST + ["Emit"],
                     max_hist=300 if q else 800)
    configs = [dict(backend="epoll"), dict(backend="epoll", threads=1), dict(backend="poll", tick_ns=1000000)] if q else \
              [dict(backend="epoll"), dict(backend="epoll", threads=1), dict(backend="epoll", changelist=1), dict(backend="poll", tick_ns=1000000),
               dict(backend="select")]
    # (signalfd bases are not forked here: with signalfd a delivery still pending when the signal event is deleted is handed to
    #  the prior disposition - the default action kills the driver - which the self-pipe model of EventCore does not describe;
    #  signalfd dispositions are C07's subject)
    scen, exp = [], []
    for h in hs:
        pts = fork_points(h)
        if not pts:
            continue
        for k in rnd.sample(pts, min(len(pts), 2 if q else 4)):
            fo = dict(base_obs(h[k - 1]["o"])); fo["r"] = 0
            parent = h[:k] + [{"a": "fork", "o": fo}] + h[k:]
            child = [{"a": "reinit", "o": fo}] + h[k:]
            scen.append(ec.strip_obs(parent)); exp.append((parent, child))
    if len(scen) < 100:
        raise vkit.InfraError("too few fork scenarios")
    for s in scen:
        chk.count_case(s, True)
    chk.sample({"history_with_fork": scen[0]})
    hist = {}
    for cfgx in configs:
        dc = ec.drv_cfg(c, cfgx.get("tick_ns", 1000), cfgx["backend"], **{k: v for k, v in cfgx.items() if k not in ("backend", "tick_ns", "threads")})
        # with threading enabled the base owns a notify fd registered in the (shared) epoll instance
        outs = vkit.run_driver(exe, [{"cfg": dc, "h": s} for s in scen], env={"VERIF_THREADS": "1"} if cfgx.get("threads") else None)
        chk.cov["traces_validated_against_impl"] += 2 * len(scen)
        nfail = 0
        for i, (o, (parent, child)) in enumerate(zip(outs, exp)):
            msg = None
            if not isinstance(o, dict) or "obs" not in o:
                msg = "driver failed: %s" % (o.get("crash", "?")[:800] if isinstance(o, dict) else o)
            else:
                f = vkit.compare_histories([parent], [o])
                if f:
                    msg = "parent: " + f[0][2]
                else:
                    ch = o.get("child")
                    if not isinstance(ch, list):
                        msg = "child produced no observations: %s" % json.dumps(ch)[:300]
                    else:
                        f = vkit.compare_histories([child], [ch])
                        if f:
                            msg = "child: " + f[0][2]
            if msg:
                nfail += 1
                if nfail <= 5:
                    chk.violation("%s scenario %d: %s" % (json.dumps(cfgx), i, msg), {"cfg": dc, "h": parent}, key=None)
        if nfail:
            vkit.log("[C11] %s: %d/%d failed" % (cfgx, nfail, len(scen)))
    chk.cov["rule"] = ("EventCore histories (TLC simulation over I/O, timer, common-timeout, signal events, activations, later-activations, loop "
                       "iterations) with a fork inserted before step k for every admissible k (quick: 3 random k per history): the child calls "
                       "event_reinit and runs the remaining steps first, then the parent runs them; both processes' observations after every "
                       "step must equal EventCore's prediction. Configurations: " + json.dumps(configs))
    chk.assumptions += ["fork points with a raised-but-undelivered signal are excluded (the delivery belongs to the parent)",
                        "the driver restores the shared pipes' readability after the child finished (test fixture, not libevent state)"]
    return chk.finish()
