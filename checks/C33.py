"""C33 - the resolver accepts only what a DNS reply actually says (DnsMsg!ClientResult via DnsMsgGen.tla, binding G)."""
import vkit
from checks import dns_common as dc

KEY_CNAME_LEAK = "C33-several-cnames-leak"
QT = {1: ("a", b"ab.cd"), 28: ("aaaa", b"ab.cd"), 12: ("ptr4", b"1.2.3.4")}
CBTYPE = {1: 1, 28: 3, 12: 2}     # DNS_IPv4_A, DNS_IPv6_AAAA, DNS_PTR
DNS_CNAME = 4


def scenario(m, randcase):
    t, name = QT[m["qt"]]
    return {"mode": "reply", "type": t, "name_hex": name.hex(), "flags": 0x81, "opts": [["randomize-case", "1" if randcase else "0"]],
            "reply": dc.hexb(m["b"]), "specid": 4660}


def judge_functional(m, res, o):
    if o is None or "crash" in o:
        return "crash / sanitizer report: %s" % (o or {}).get("crash", "no output")[-1500:], None
    cbs = o.get("cb", [])
    k = res["k"]
    if k == "any":
        return None
    if not cbs:
        return "the request never completed", None
    main = [c for c in cbs if c["type"] != DNS_CNAME]
    cn = [c for c in cbs if c["type"] == DNS_CNAME]
    if len(main) != 1:
        return "%d result callbacks" % len(main), None
    c = main[0]
    if k == "ignored":
        if c["err"] != 67 or c["at_ms"] != 15000 or len(o["pkts"]) != 3 or cn:
            return "a packet that is not a reply to the query (wrong id / QR clear) influenced it: %s after %d ms, %d transmissions" % \
                   (c, c["at_ms"], len(o["pkts"])), None
        return None
    if c["err"] != 0:
        if k == "ok":
            return "a regular reply was not accepted: error %d" % c["err"], None
        return ("CNAME callback together with an error", None) if cn else None
    if k == "error":
        return "data reported although the reply must not be used: %s" % c, None
    # success: exactly what the reference says
    if c["type"] != CBTYPE[m["qt"]]:
        return "result type %d" % c["type"], None
    if m["qt"] == 12:
        if not any(c.get("ptr") == dc.join_labels(p["n"]).hex() and 0 <= c["ttl"] <= p["ttl"] and c["count"] == 1 for p in res["ptrs"]):
            return "PTR result %s (ttl %d) is not one of %s" % (bytes.fromhex(c.get("ptr", "")), c["ttl"],
                                                              [(dc.join_labels(p["n"]), p["ttl"]) for p in res["ptrs"]]), None
    else:
        exp = [bytes(a).hex() for a in res["addrs"]]
        if c.get("addrs", []) != exp or c["count"] != len(exp):
            return "addresses %s, the answer section says %s" % (c.get("addrs"), exp), None
        if not 0 <= c["ttl"] <= res["maxttl"]:
            return "ttl %d larger than the minimum %d of the records used" % (c["ttl"], res["maxttl"]), None
        names = [dc.join_labels(n).hex() for n in res["cnames"]]
        if cn and (len(cn) != 1 or cn[0].get("cname") not in names):
            return "reported CNAME %s is not a CNAME of the answer section %s" % ([x.get("cname") for x in cn], names), None
        if names and not cn and k == "ok":
            return "the CNAME of the answer section was not reported (DNS_CNAME_CALLBACK)", None
    return None


def judge(m, res, o):
    f = judge_functional(m, res, o)
    if f or o is None or "crash" in o:
        return f
    ncn = sum(1 for t in m["tok"]["an"] if t in (6, 7, 22))          # CNAME tokens of the answer section
    if o.get("leak"):
        return "leak of %d allocation(s) (%d CNAME records in the answer section)" % (o["leak"], ncn), \
               (KEY_CNAME_LEAK if 1 <= o["leak"] <= ncn else None)
    return None


def run(tier, seed):
    q = tier == "quick"
    chk = vkit.Check("C33", tier, seed)
    exe = dc.driver()
    R = "reply"
    gens = [
        ("C33_answers", {"Mode": R, "QTypes": {1, 28, 12}, "RRIdx": range(1, 34), "MaxAn": 1 if q else 2}),
        ("C33_pairs", {"Mode": R, "QTypes": {1, 12}, "RRIdx": {1, 2, 6, 7, 8, 9, 12, 13, 21, 27, 29} if q else (set(range(1, 14)) | {26, 27, 28, 29}), "MaxAn": 2 if q else 3}),
        ("C33_header", {"Mode": R, "QTypes": {1, 28, 12}, "FlagIdx": range(1, 9), "QIdx": range(1, 9), "RRIdx": {1, 3, 8, 31, 32, 33}, "NsIdx": {1, 2}, "IdSet": {0, 1},
                        "MaxAn": 1}),
        ("C33_shape", {"Mode": R, "QTypes": {1, 28, 12}, "RRIdx": {1, 4, 6, 8, 13}, "NsIdx": {1, 2, 3}, "ArIdx": {1, 2}, "CntIdx": range(1, 8),
                       "CutSet": {0, 1, 3, 11}, "MaxAn": 1}),
    ]
    if not q:
        gens.append(("C33_rand", {"Mode": R, "QTypes": {1, 28, 12}, "FlagIdx": range(1, 9), "QIdx": range(1, 9), "RRIdx": range(1, 34),
                                  "NsIdx": {1, 2, 3}, "ArIdx": {1, 2}, "CntIdx": range(1, 8), "CutSet": {0, 1, 2, 3, 5, 11, 17, 30},
                                  "IdSet": {0, 1}, "MaxAn": 4, "Random": True, "RandomN": 8000}))
    msgs, seen = [], set()
    for name, c in gens:
        for m in dc.gen_messages(chk, name, c, timeout=1800):
            kk = (bytes(m["b"]), m["qt"])
            if kk not in seen:
                seen.add(kk); msgs.append(m)
    kinds = {}
    for m in msgs:
        kinds[m["res"]["k"]] = kinds.get(m["res"]["k"], 0) + 1
    chk.cov["verdicts"] = kinds
    if any(not kinds.get(k) for k in ("ignored", "error", "ok", "open", "any")):
        raise vkit.InfraError("vacuous message space %s" % kinds)
    runs = [(m, False) for m in msgs] + [(m, True) for m in msgs[::4]]     # a quarter again with 0x20 randomisation
    scen = [scenario(m, rc) for m, rc in runs]
    outs = vkit.run_driver(exe, scen, timeout=900)
    for (m, rc), sc, o in zip(runs, scen, outs):
        chk.count_case([sc["reply"], sc["type"], rc], nontrivial=len(m["b"]) > 12)
        chk.cov["traces_validated_against_impl"] += 1
        res = m["resrc"] if rc else m["res"]
        bad = judge(m, res, o)
        if bad and len(chk.violations) < 12:
            chk.violation("C33 %s %s%s: %s" % (QT[m["qt"]][0], m["tok"], " 0x20" if rc else "", bad[0]),
                          {"scenario": sc, "verdict": res, "actual": o}, key=bad[1])
    for m in [x for x in msgs if x["res"]["k"] == "ok"][:2] + [x for x in msgs if x["res"]["k"] == "ignored"][:1]:
        chk.sample({"query_type": m["qt"], "reply_hex": dc.hexb(m["b"]), "tokens": m["tok"], "reference_verdict": m["res"]})
    chk.cov["rule"] = ("TLC builds reply messages from tokens (8 header variants: AA, QR clear, NXDOMAIN, SERVFAIL, TC, REFUSED, NOTIMPL; 8 question "
                       "variants: echo, other name, none, other case, other type, two questions, class CH, pointer loop; 30 RR tokens (incl. one RR with 2/16/64/100 A or 2/17 AAAA addresses): A / AAAA / "
                       "CNAME / PTR with pointers back / forward / out of range / into the header / mid-label / self loop, reserved label types, "
                       "wrong class, 3/8-byte A, lying RDLENGTH, TTL 0 and 2^31-1; SOA / junk authority; OPT; 7 count distortions; truncation; "
                       "right / wrong id), checks the reference (decode o encode = id, soundness of 'ok', case monotonicity) and emits bytes + "
                       "verdict for A, AAAA and PTR queries.  A fake nameserver answers the real resolver's pending query with those bytes (id "
                       "patched); every callback (error / addresses / PTR name / CNAME / ttl), the time of the callback (virtual clock: an "
                       "ignored packet means 3 transmissions and DNS_ERR_TIMEOUT after 15 s) and the allocation balance are compared.")
    chk.assumptions += ["replies are delivered over UDP; the TCP path (same reply_parse behind tcp_read_message) is not driven",
                        "replies that are malformed after a matching question ('any') are run for ASan / leak only",
                        "question matching is by name (the property's 'question'); a reply whose question has another type/class is 'open'"]
    return chk.finish()
