"""C09 - cross-thread calls: never lost, del waits for callbacks.
Threads.tla: the lock/condvar/notify protocol, all interleavings of 2 workers x <=2 ops (TLC safety + liveness).
ThreadsObs.tla: monitor of the observable events; traces recorded from real multi-threaded runs of the
programs TLC explored (seeded random preemption at every lock operation, callbacks long enough to aim
deletes into the running callback) are validated event by event."""
import json, os, random, re, shutil
import vkit

SAFETY_INV = ["TypeOK", "DelWaits1", "DelWaits2", "NotifyConsistent"]


def consts(ev, w, maxops, bug="none"):
    return {"MaxOps": maxops, "NotifyBug": bug}


def write_cfg(name, nev, nw, maxops, bug, *, live=False, emit=False):
    d = os.path.join(vkit.OUT, "cfg"); os.makedirs(d, exist_ok=True)
    p = os.path.join(d, name + ".cfg")
    L = ["CONSTANTS", "  Ev = {%s}" % ", ".join("e%d" % i for i in range(1, nev + 1)),
         "  W = {%s}" % ", ".join("w%d" % i for i in range(1, nw + 1)),
         "  MaxOps = %d" % maxops, '  NotifyBug = "%s"' % bug, "  None = None"]
    if live:
        L += ["SPECIFICATION Spec", "PROPERTY NoLostWakeup", "PROPERTY TimersFire", "PROPERTY BreakEnds"]
    else:
        L += ["INIT Init", "NEXT Next"]
    if emit:
        L += ["INVARIANT EmitProg", "CONSTRAINT OnlyInitial", "CHECK_DEADLOCK FALSE"]
    else:
        L += ["INVARIANT " + i for i in SAFETY_INV] + ["CHECK_DEADLOCK TRUE"]
    open(p, "w").write("\n".join(L) + "\n")
    return p


def validate(chk, path, label):
    res = vkit.tlc("ThreadsObs", "ThreadsObs_Trace", env={"VERIF_TRACE": path}, workers=1, want_prints=False, timeout=900, xmx="6g")
    chk.cov["states"] += res.distinct; chk.cov["transitions"] += res.generated
    chk.cov["tlc_runs"].append({"name": label, "distinct": res.distinct, "generated": res.generated, "wall_s": round(res.wall, 1)})
    if res.error or res.violation or "TRACE-ACCEPTED" not in res.raw:
        raise vkit.InfraError("trace validation %s failed: %s %s\n%s" % (label, res.error, res.violation, res.raw[-3000:]))
    return [(int(a), b, int(c)) for a, b, c in re.findall(r'<<"BAD", (\d+), "([^"]+)", (\d+)>>', res.raw)]


def conformance(chk, exe, scen, label, env=None):
    outs = vkit.run_driver(exe, scen, shards=8, timeout=600, env=env)
    d = os.path.join(vkit.OUT, "tmp"); os.makedirs(d, exist_ok=True)
    path = os.path.join(d, "threads_%s_%d.ndjson" % (label, os.getpid()))
    starts = []
    n = 0
    with open(path, "w") as f:
        for i, o in enumerate(outs):
            starts.append(n + 1)
            f.write(json.dumps({"k": "Reset", "s": 0, "t": 0, "op": "", "e": i % 5 + 1}) + "\n"); n += 1
            if not isinstance(o, dict) or "trace" not in o:
                msg = o.get("crash", "no output") if isinstance(o, dict) else "no output"
                chk.violation("%s scenario %d: driver failed: %s" % (label, i, msg[:1500]), scen[i], key=None)
                continue
            for e in o["trace"]:
                f.write(json.dumps(e) + "\n"); n += 1
            if o.get("lost") or o.get("stuck"):
                f.write(json.dumps({"k": "Lost", "s": 0, "t": 0, "op": "stuck" if o.get("stuck") else "lost", "e": 1}) + "\n"); n += 1
    for (pos, why, e) in validate(chk, path, label):
        idx = max(i for i, s in enumerate(starts) if s <= pos)
        chk.violation("%s scenario %d: %s (event %d) at trace position %d; programs=%s" %
                      (label, idx, why, e, pos - starts[idx], json.dumps(scen[idx]["progs"])),
                      {"scenario": scen[idx], "trace": outs[idx].get("trace") if isinstance(outs[idx], dict) else None, "why": why},
                      key=None)
    os.remove(path)
    chk.cov["traces_validated_against_impl"] += len(scen)
    chk.cov["trace_events"] = chk.cov.get("trace_events", 0) + n


def to_driver_prog(p, rnd, aim):
    out = []
    armed = set()
    for op in p:
        o, e = op["op"], int(op["e"][1:])
        if o.startswith("del") and aim and e in armed:
            out.append({"op": "sync", "e": e})
        if o in ("add", "active"):
            armed.add(e)
        out.append({"op": o, "e": e})
    return out


def run(tier, seed):
    q = tier == "quick"
    rnd = random.Random(seed)
    chk = vkit.Check("C09", tier, seed)
    # 1. the protocol model: safety over all interleavings, liveness under fairness
    res = vkit.tlc("Threads", write_cfg("C09_safety", 1 if q else 2, 2, 2, "none"), want_prints=False, coverage=True, timeout=1500)
    chk.add_tlc("Threads_safety", res)
    if res.distinct < 10000:
        raise vkit.InfraError("Threads model explored suspiciously few states")
    res = vkit.tlc("Threads", write_cfg("C09_live", 2, 2, 1, "none", live=True), want_prints=False, timeout=1500)
    chk.add_tlc("Threads_liveness", res)
    # the model must be able to tell a broken protocol from a correct one (self-test of the model, cheap)
    for bug, live in (("no-condwait", False), ("no-notify", True)) if not q else (("no-condwait", False),):
        r = vkit.tlc("Threads", write_cfg("C09_bug_" + bug, 1, 2, 2 if not live else 1, bug, live=live), want_prints=False, timeout=900)
        if r.error or not r.violation:
            raise vkit.InfraError("model self-test: protocol mutation %s not detected by TLC (%s)" % (bug, r.error))
        chk.cov["tlc_runs"].append({"name": "selftest_" + bug, "violation": r.violation, "wall_s": round(r.wall, 1)})
    # 2. programs explored by the model -> real threads
    progs = []
    r = vkit.tlc("Threads", write_cfg("C09_emit", 2, 2, 2, "none", emit=True), print_sink=progs.append, timeout=600)
    if r.error or len(progs) < 100:
        raise vkit.InfraError("program generation failed: %s %d\n%s" % (r.error, len(progs), r.raw[-2000:]))
    rnd.shuffle(progs)
    # prefer programs that contain a blocking del or an arm (the others exercise nothing)
    def interesting(p):
        ops = [o["op"] for w in p.values() for o in w]
        return any(o in ("del",) for o in ops) and any(o in ("add", "active") for o in ops)
    sel = [p for p in progs if interesting(p)]
    sel = sel[: (160 if q else 2500)]
    exe = vkit.cc("threads_drv", ["threads_drv.c"], libs=("event_core", "event_pthreads"))
    scen = []
    for i, p in enumerate(sel):
        for aim in (True, False):
            scen.append({"cfg": {"seed": seed * 1000 + i, "cbus": rnd.choice([200, 600, 1500]), "yield": rnd.choice([0, 30, 60])},
                         "progs": [to_driver_prog(p[w], rnd, aim) for w in sorted(p)]})
    # hand-aimed family: activate, wait until the callback runs, delete from another thread
    for i in range(40 if q else 400):
        e = rnd.randint(1, 2)
        scen.append({"cfg": {"seed": seed + i, "cbus": 1500, "yield": rnd.choice([0, 40])},
                     "progs": [[{"op": "active", "e": e}, {"op": "sync", "e": e}, {"op": rnd.choice(["del", "del_block"]), "e": e}],
                               [{"op": "add", "e": 3 - e}, {"op": "sleep", "us": 300}, {"op": "del_noblock", "e": 3 - e}]]})
    # re-activation during the callback, then a cross-thread del aimed into that callback: the del must cancel the
    # pending second invocation and wait for the first (catches a del that waits before it dequeues)
    for i in range(40 if q else 400):
        e = rnd.randint(1, 2)
        scen.append({"cfg": {"seed": seed + 7 * i, "cbus": 20000, "yield": rnd.choice([0, 30]), "react": 1},
                     "progs": [[{"op": "active", "e": e}, {"op": "sync", "e": e}, {"op": "sleep", "us": 200},
                                {"op": rnd.choice(["del", "del_block"]), "e": e}]]})
    # cross-thread add of an I/O event (readable fd, far timeout) on backends that must be woken to see the change
    for i in range(24 if q else 240):
        be = [dict(backend="poll"), dict(backend="select"), dict(backend="epoll", changelist=1), dict(backend="epoll")][i % 4]
        cfgx = {"seed": seed + 13 * i, "cbus": 300, "yield": rnd.choice([0, 30])}; cfgx.update(be)
        scen.append({"cfg": cfgx, "progs": [[{"op": "add", "e": 3}], [{"op": "add", "e": rnd.choice([1, 4])}]]})
    for s in scen:
        chk.count_case(s["progs"], True)
    chk.sample(scen[0]); chk.sample(scen[-1])
    conformance(chk, exe, scen, "asan")
    if not q:
        try:
            exe_t = vkit.cc("threads_drv", ["threads_drv.c"], variant="tsan", libs=("event_core", "event_pthreads"))
            outs = vkit.run_driver(exe_t, scen[:600], shards=8, timeout=900,
                                   env={"TSAN_OPTIONS": "exitcode=66 halt_on_error=1 report_signal_unsafe=0"})
            races = [o for o in outs if isinstance(o, dict) and "crash" in o and "ThreadSanitizer" in o["crash"]]
            chk.cov["tsan_runs"] = len(outs); chk.cov["tsan_reports"] = len(races)
            for o in races[:3]:
                chk.violation("ThreadSanitizer report: " + o["crash"][:1500], None, key="tsan")
        except vkit.InfraError as e:
            chk.assumptions.append("TSan build unavailable: %s" % str(e)[:200])
    chk.cov["rule"] = ("programs = all pairs of worker programs of <=2 ops over {add, active, del, del_noblock, break} x 2 events that TLC explored in "
                       "Threads.tla (those with an arm and a blocking del), each run on real threads twice (with and without aiming the del into the "
                       "running callback), seeded random yields at every lock operation; plus hand-aimed del-during-callback runs. Every stamped "
                       "Call/Ret/CbBegin/CbEnd event is validated against ThreadsObs.tla.")
    chk.assumptions += ["stamps from one atomic counter order the events; overlap is reported only when stamps prove it",
                        "lost wake-ups are detected by a watchdog (3-5 s) while the loop sleeps on a one-hour timer",
                        "data-race freedom is a TSan side condition (thorough tier only)"]
    return chk.finish()
