"""C18 - read and write watermarks are honoured (Bev.tla, binding G).

Every user callback is logged with the input/output lengths and the watermarks it saw; TLC-generated
histories of setwatermark (zero, equal, inverted, lowered below the buffered amount) / write / enable /
disable / flush / loop steps with scripted partial drains are replayed on pair, filter and socket
bufferevents; callbacks, buffer lengths and bytes consumed are compared after every step."""
from checks import bev_common as bc

WM = {"write", "enable", "disable", "loop", "script", "wmr", "wmw"}
WMS = ((0, 0), (1, 2), (2, 2), (2, 1), (0, 1), (0, 3))


def run(tier, seed):
    q = tier == "quick"
    inv = ["TypeOK", "Conserved", "ReadCbOnlyAboveLow", "InputNeverAboveHigh", "NoStall", "FilterRespectsUnderlyingHigh"]
    fn = ("two", "one", "id")[seed % 3]
    df = seed % 2 == 0
    FW = lambda f, D: bc.consts("filt", WM | {"wmu"}, D, wms=WMS, durs=(0,), filtfn=f)
    # directed family: L units buffered unread on a socket, read high watermark set to L-1 / L / L+1, then the peer
    # writes more: no EOF while the peer is open, suspended at == high, reading resumes after a drain
    # + read high watermark set, cleared, set again, then the application drains from OUTSIDE the read callback: reading
    # resumes as soon as the input is below the mark (pair and socket); + filter "two" (moves less than the limit per
    # call) over an underlying endpoint with write high watermark W whose output does not drain: never more than W
    ALLW = [(lo, hi) for lo in (0, 1) for hi in (0, 1, 2, 3)]
    PWR = dict(name="C18_pair_wmreset", scripts=bc.wm_reset_family("pair"), units=(1, 4096),
               consts=bc.consts("pair", {"write", "enable", "loop", "wmr", "read", "clr"}, 9, sizes=(1, 2, 3, 4), durs=(0,),
                                wms=ALLW, drains=(0, 1, 99)))
    FUH = lambda f: dict(name="C18_filt_underhigh_" + f, scripts=bc.filt_under_high_family(), units=(1, 1000),
                         consts=bc.consts("filt", {"write", "enable", "loop", "wmu"}, 9, sizes=(1, 2, 3, 4, 5), durs=(0,),
                                          wms=ALLW, drains=(0, 1, 99), filtfn=f))
    HM = lambda d: dict(name="C18_sock_directed_" + ("def" if d else "imm"),
                        scripts=bc.sock_highmark_family() + bc.wm_reset_family("sock"), units=(1, 512),
                        consts=bc.consts("sock", {"write", "enable", "loop", "script", "wmr", "read", "clr"}, 9, sizes=(1, 2, 3, 4), durs=(0,),
                                         wms=[(lo, hi) for lo in (0, 1) for hi in (0, 1, 2, 3)], drains=(0, 1, 99), defer=d))
    quick_gen = [
        # exhaustive: also the bounded model check of the quick tier (invariants on every state of every history)
        dict(name="C18_pair_exh", consts=bc.consts("pair", {"write", "enable", "loop", "wmr", "script"}, 3, sizes=(1, 3),
                                                   drains=(0, 1), wms=((1, 2), (2, 1), (0, 1)), durs=(0,), script_until=1),
             units=(4096,), invariants=inv),
        dict(name="C18_pair_rand", consts=bc.consts("pair", WM | {"flush"}, 10, wms=WMS, durs=(0,),
                                                    extras=("none", "wm0", "w1", "disR"), xkinds=("r",)), simulate=20, units=(1, 1000)),
        dict(name="C18_filt_" + fn, consts=FW(fn, 9), simulate=15, units=(1, 1000)),
        dict(name="C18_sock_" + ("def" if df else "imm"),
             consts=bc.consts("sock", WM, 10, wms=WMS, durs=(0,), extras=("none", "wm0"), xkinds=("r",), defer=df),
             simulate=20, units=(1, 512)),
        HM(df), PWR, FUH("two"),
    ]
    plan = {
        "mc": [] if q else [("C18_mc_pair", bc.consts("pair", WM, 5, sizes=(1, 3), drains=(0, 1), wms=((0, 0), (1, 2), (2, 1)),
                                                      durs=(0,), script_until=1), inv)],
        "gen": quick_gen if q else [
            dict(name="C18_pair_exh", consts=bc.consts("pair", {"write", "enable", "loop", "wmr", "script"}, 4, sizes=(1, 3),
                                                       drains=(0, 1), wms=((1, 2), (2, 1), (0, 1)), durs=(0,), script_until=1),
                 units=(1, 4096)),
            dict(name="C18_pair_rand", consts=bc.consts("pair", WM | {"flush"}, 14, wms=WMS, durs=(0,),
                                                        extras=("none", "wm0", "w1", "disR"), xkinds=("r",)),
                 simulate=400, units=(1, 1000)),
            dict(name="C18_filt_one", consts=FW("one", 12), simulate=200, units=(1, 1000)),
            dict(name="C18_filt_id", consts=FW("id", 12), simulate=200, units=(1,)),
            dict(name="C18_filt_two", consts=FW("two", 12), simulate=200, units=(1,)),
            dict(name="C18_sock_imm", consts=bc.consts("sock", WM, 14, wms=WMS, durs=(0,), extras=("none", "wm0"),
                                                       xkinds=("r",)), simulate=300, units=(1, 512)),
            dict(name="C18_sock_def", consts=bc.consts("sock", WM, 14, wms=WMS, durs=(0,), defer=True), simulate=300, units=(1,)),
            HM(False), HM(True), PWR, FUH("two"), FUH("one"),
        ],
        "monitor_by_kind": {k: bc.mon_c18(k) for k in ("pair", "filt", "sock")},
        "need": ["write", "wm", "cb:r", "cb:w"],
        "rule": "TLC enumerates (pair_exh) or simulates histories of the Bev specification with read/write watermarks "
                "(zero, equal, inverted, lowered below the buffered amount, cleared from inside the read callback) on pair, "
                "filter (3 filter functions, incl. the underlying's write watermark) and socket bufferevents; each is "
                "replayed on the real library and every callback (lengths and watermarks seen, amount drained), all buffer "
                "lengths and bytes consumed are compared after every step; a direct monitor checks 'read callback only "
                "with >= low watermark buffered' on the real callback log. non-trivial = >= 2 calls and one callback.",
        "assumptions": ["TLS record overrun is out of scope (no TLS build)",
                        "a deferred read callback that was scheduled before the low watermark was raised above the buffered "
                        "amount is left open (such histories are not generated)",
                        "the model's filter functions honour the `lim` argument",
                        "socket endpoints live on separate event bases"],
    }
    return bc.standard_run("C18", tier, seed, plan)
