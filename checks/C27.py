"""C27 - every HTTP request completes exactly once, whatever the network does (specs/HttpConn.tla).

(1) TLC decides on the connection/request life-cycle model (2 queued requests, 1 retry, error callbacks on/off, every
interleaving of connect / refuse / write / receive / fault / idle close / cancel): ExactlyOnce, ErrorCbAtMostOnce,
NeverStranded, QueueConsistent and, under fair network steps, EventuallySettled.
(2) Fault scripts - EOF, reset or stall (-> timeout) after every octet offset of request/response exchanges, refused
connects with 0..2 retries, peer close after a response, evhttp_cancel_request before / in the middle of an exchange -
run against a real evhttp_connection and a scripted raw peer; the callbacks the library made (make, cancel, error
callback, completion ok/failed, end) are validated as a trace against the same model (network steps silent).
AddressSanitizer watches for use-after-free / double free; a request that never completes trips the watchdog.
"""
import json, os, random
import vkit

R1 = "HTTP/1.1 200 OK\r\nContent-Length: 3\r\n\r\nabc"
EXCH = [
    (["GET", "GET"], R1 + "HTTP/1.1 404 Not Found\r\nContent-Length: 2\r\n\r\nxy", 0),
    (["GET", "HEAD"], "HTTP/1.1 200 OK\r\nTransfer-Encoding: chunked\r\n\r\n3\r\nabc\r\n0\r\nX-T: t\r\n\r\nHTTP/1.1 200 OK\r\nContent-Length: 5\r\n\r\n", 0),
    (["POST", "GET"], "HTTP/1.0 200 OK\r\nServer: s\r\n\r\nbody-until-close", 1),
]
LATER = {"bytes": "HTTP/1.1 204 No Content\r\n\r\n" + R1, "fault": "none", "close_after": 0}


def scripts(rng, q):
    out = []
    for reqs, stream, close_after in EXCH:
        n = len(stream)
        for kind in ("eof", "rst", "stall"):
            offs = range(0, n + 1) if kind != "stall" else range(0, n + 1, 6 if q else 2)
            if q and kind != "stall":
                offs = range(0, n + 1, 2) if kind == "rst" else offs
            for k in offs:
                out.append({"mode": "clientfault", "reqs": reqs, "retries": k % 2, "errcb": (k // 2) % 2, "timeout_ms": 60,
                            "conns": [{"bytes": stream, "at": k, "fault": kind, "close_after": close_after}, LATER]})
        for retries in (0, 1):
            for errcb in (0, 1):
                out.append({"mode": "clientfault", "reqs": reqs, "retries": retries, "errcb": errcb, "timeout_ms": 60,
                            "conns": [{"bytes": stream, "fault": "none", "close_after": close_after}, LATER]})
        for ci in (0, 1):
            for when in ("start", "mid"):
                for k in (range(0, n + 1, 5) if q else range(0, n + 1)):
                    out.append({"mode": "clientfault", "reqs": reqs, "retries": 0, "errcb": k % 2, "timeout_ms": 60,
                                "cancel": {"i": ci, "when": when},
                                "conns": [{"bytes": stream, "at": k, "fault": "stall" if k < n else "none", "close_after": close_after}, LATER]})
                    if when == "start":
                        break
    # a NEW request issued on the same evhttp_connection after the earlier ones are settled ("after") or from inside the
    # completion callback ("in_cb"); first connect attempt refused and a retry succeeding (the port starts listening late);
    # evhttp_connection_free_on_completion with a Connection: close response
    R2 = "HTTP/1.1 200 OK\r\nContent-Length: 2\r\n\r\nxy"
    RC = "HTTP/1.1 200 OK\r\nConnection: close\r\nContent-Length: 3\r\n\r\nabc"
    for errcb in (0, 1):
        for late, retries in ((1, 1), (1, 2), (0, 0), (0, 1)):
            for fault, at in (("eof", 0), ("eof", 10), ("eof", len(R1) - 1), ("rst", 5), ("stall", 20), ("none", 0)):
                out.append({"mode": "clientfault", "reqs": ["GET"], "retries": retries, "errcb": errcb, "timeout_ms": 60,
                            "late_listen": late, "followup": "after",
                            "conns": [{"bytes": R1, "at": at, "fault": fault, "close_after": 0}, {"bytes": R2, "fault": "none"},
                                      {"bytes": R2, "fault": "none"}]})
        for first, close_after in ((RC, 1), (RC, 0), (R1, 0)):
            for autofree in (1, 0):
                out.append({"mode": "clientfault", "reqs": ["GET"], "retries": 0, "errcb": errcb, "timeout_ms": 60, "autofree": autofree,
                            "followup": "in_cb",
                            "conns": [{"bytes": first, "fault": "none", "close_after": close_after}, {"bytes": R2, "fault": "none"}]})
    for retries in (0, 1, 2):
        for errcb in (0, 1):
            out.append({"mode": "clientfault", "reqs": ["GET", "POST"], "retries": retries, "errcb": errcb, "timeout_ms": 60, "deadport": 1, "conns": []})
            # every connection is reset as soon as the request arrives
            out.append({"mode": "clientfault", "reqs": ["GET", "GET", "GET"], "retries": retries, "errcb": errcb, "timeout_ms": 60, "conns": []})
    return out


def write_cfg(name, mode, extra, consts=None):
    d = os.path.join(vkit.OUT, "cfg"); os.makedirs(d, exist_ok=True)
    p = os.path.join(d, name + ".cfg")
    open(p, "w").write("CONSTANTS\n  Mode = \"%s\"\n%s\n%s\nCHECK_DEADLOCK FALSE\n" % (mode, consts or "  NReq = 2\n  MaxRetry = 1", extra))
    return p


# ----------------------------------------------------------------------------- server side (specs/HttpServer.tla)
SRV_CONSTS = "  Clients = {0, 1}\n  MaxReq = 2\n  Limit = 1"


def sreq(c, k, m):
    return "GET /c%d/r%d/%s HTTP/1.1\r\nHost: h\r\n\r\n" % (c, k, m)


def server_scripts(rng, q):
    """raw-client scripts: pipelined requests answered at once / later / streamed, half requests + close, close before the
    reply (late reply), close after the reply, more connections than evhttp_set_max_connections allows"""
    out = []
    import itertools
    modes = "ikdD"
    # A: pipelines on one connection, sent in one piece or cut in the middle of the last request
    for n in (1, 2, 3):
        for ms in itertools.product(modes, repeat=n):
            if q and n == 3 and rng.random() < 0.7:
                continue
            data = "".join(sreq(0, k, m) for k, m in enumerate(ms))
            for cut in (None, len(data) - 9):
                st = [["open", 0]]
                if cut is None:
                    st.append(["send", 0, data, n])
                else:
                    st += [["send", 0, data[:cut], n - 1], ["send", 0, data[cut:], 1]]
                st += [["reply", 0]] * sum(1 for m in ms if m in "dD")
                out.append({"mode": "srvscript", "max_conn": 0, "steps": st})
    # B: half a request, then the client goes away;  C: close before the reply (late reply);  D: close after the reply
    for m0 in modes:
        out.append({"mode": "srvscript", "max_conn": 0, "steps": [["open", 0], ["send", 0, sreq(0, 0, m0) + sreq(0, 1, "i")[:17], 1],
                                                                  ["reply", 0], ["pclose", 0]]})
    for tail in ("", sreq(0, 1, "i"), sreq(0, 1, "d")):
        for hold in "dD":
            n = 1 + (1 if tail else 0)
            out.append({"mode": "srvscript", "max_conn": 0, "steps": [["open", 0], ["send", 0, sreq(0, 0, hold) + tail, n], ["pclose", 0],
                                                                      ["reply", 0], ["reply", 0]]})
            out.append({"mode": "srvscript", "max_conn": 0, "steps": [["open", 0], ["send", 0, sreq(0, 0, hold) + tail, n], ["reply", 0],
                                                                      ["pclose", 0], ["reply", 0]]})
    # E: connection limit
    for limit in (1, 2):
        for m0 in "id":
            st = [["open", 0], ["open", 1], ["open", 2], ["send", 1, sreq(1, 0, "i"), 1], ["send", 2, sreq(2, 0, "i"), 1],
                  ["send", 0, sreq(0, 0, m0) + sreq(0, 1, "k"), 2], ["pclose", 0], ["open", 3], ["send", 3, sreq(3, 0, "i"), 1],
                  ["reply", 0], ["open", 4], ["send", 4, sreq(4, 0, "d"), 1], ["reply", 4]]
            out.append({"mode": "srvscript", "max_conn": limit, "steps": st})
    # random scripts
    for _ in range(40 if q else 400):
        limit = rng.choice([0, 0, 1, 2])
        st, opened, closed, nreq, held = [], [], set(), {}, {}
        for _ in range(rng.randint(4, 12)):
            act = rng.choice(["open", "send", "send", "reply", "pclose"])
            if act == "open" and len(opened) < 5:
                c = len(opened); opened.append(c); nreq[c] = 0; st.append(["open", c])
            elif act == "send" and [c for c in opened if c not in closed]:
                c = rng.choice([c for c in opened if c not in closed]); k = rng.randint(1, 2)
                data = "".join(sreq(c, nreq[c] + j, rng.choice(modes)) for j in range(k)); nreq[c] += k
                st.append(["send", c, data, k])
            elif act == "reply" and opened:
                st.append(["reply", rng.choice(opened)])
            elif act == "pclose" and [c for c in opened if c not in closed]:
                c = rng.choice([c for c in opened if c not in closed]); closed.add(c); st.append(["pclose", c])
        st += [["reply", c] for c in opened for _ in range(3)]
        out.append({"mode": "srvscript", "max_conn": limit, "steps": st})
    return out


def run_server_side(chk, exe, rng, q):
    cfg = write_cfg("C27_srv_mc", "model", "INIT Init\nNEXT Next\nINVARIANT HandlerExactlyOnce\nINVARIANT AtMostOneResponse\n"
                                           "INVARIANT OverLimitNeverHandled", SRV_CONSTS)
    res = vkit.tlc("HttpServer", cfg, workers=4, want_prints=False, timeout=900)
    chk.add_tlc("C27_srv_mc", res)
    if res.distinct < 500:
        raise vkit.InfraError("vacuous HttpServer model run: %r" % res)
    sc = server_scripts(rng, q)

    def execute(scripts):
        outs = vkit.run_driver(exe, scripts, timeout=1500)
        traces, keep = [], []
        for s, o in zip(scripts, outs):
            if o is None or "crash" in o:
                chk.violation("server script %s: driver crashed (sanitizer report?): %s" % (json.dumps(s)[:400], (o or {}).get("crash", "no output")[-1500:]), s)
            elif o.get("hang"):
                raise vkit.InfraError("server script did not settle: %s" % json.dumps(s)[:400])
            else:
                traces.append([["reset", s["max_conn"], 0]] + o["ev"]); keep.append(s)
        return traces, keep
    traces, keep = execute(sc)
    for s in sc:
        chk.count_case(s, nontrivial=True)
    chk.cov["server_scripts"] = len(traces)
    chk.cov["traces_validated_against_impl"] += len(traces)
    chk.cov["events"] = chk.cov.get("events", 0) + sum(len(t) for t in traces)
    inv = ("HandlerExactlyOnce", "AtMostOneResponse", "OverLimitNeverHandled")
    for attempt in range(4):
        bad, why = validate(chk, "C27_srv_trace%d" % attempt, traces, spec="HttpServer", invs=inv, consts=SRV_CONSTS)
        if bad is None:
            break
        # a rejection must repeat on a re-run of the same script (quiescence of several sockets is heuristic)
        again, _ = execute([keep[bad]] * 2)
        rej = [validate(chk, "C27_srv_retry%d" % attempt, [t], spec="HttpServer", invs=inv, consts=SRV_CONSTS)[0] is not None for t in again]
        if again and all(rej):
            chk.violation("server script %s: events %s: %s" % (json.dumps(keep[bad])[:600], json.dumps(traces[bad]), why),
                          {"script": keep[bad], "events": traces[bad]})
        else:
            chk.cov["unrepeated_rejections"] = chk.cov.get("unrepeated_rejections", 0) + 1
        del traces[bad]; del keep[bad]
    for s, t in list(zip(keep, traces))[:2]:
        chk.sample({"server_script": s["steps"][:6], "max_conn": s["max_conn"], "events": t})


def validate(chk, name, traces, spec="HttpConn", invs=("ExactlyOnce", "ErrorCbAtMostOnce", "QueueConsistent"), consts=None):
    """traces: list of event lists.  Returns index of the first rejected trace or None."""
    d = os.path.join(vkit.OUT, "tmp"); os.makedirs(d, exist_ok=True)
    tr = os.path.join(d, "%s_%d.ndjson" % (name, os.getpid()))
    starts = []
    with open(tr, "w") as f:
        n = 0
        for t in traces:
            starts.append(n + 1)
            for e in t:
                f.write(json.dumps(e) + "\n"); n += 1
    cfg = write_cfg(name, "trace", "INIT Init\nNEXT Next\nINVARIANT Progress\n" + "\n".join("INVARIANT " + i for i in invs), consts)
    reached = []
    res = vkit.tlc(spec, cfg, env={"TRACE": tr}, workers=1, print_sink=reached.append, timeout=1500)
    os.unlink(tr)
    if res.error:
        raise vkit.InfraError("TLC %s: %s\n%s" % (name, res.error, res.raw[-3000:]))
    chk.cov["states"] += res.distinct; chk.cov["transitions"] += res.generated
    chk.cov["tlc_runs"].append({"name": name, "distinct": res.distinct, "generated": res.generated, "depth": res.depth,
                                "wall_s": round(res.wall, 1), "violation": res.violation})
    total = sum(len(t) for t in traces)
    far = max([x for x in reached if isinstance(x, int)] or [1])
    if not res.violation and far == total + 1:      # the end of the concatenated trace is reachable: accepted
        return None, None
    idx = max(i for i, s in enumerate(starts) if s <= far)
    return idx, "event %d of the trace (%s)%s" % (far - starts[idx] + 1, json.dumps(traces[idx][far - starts[idx]] if far - starts[idx] < len(traces[idx]) else "end"),
                                                  "; invariant %s violated" % res.violation if res.violation else " is not a behaviour of the model")


def run(tier, seed):
    q = tier == "quick"
    chk = vkit.Check("C27", tier, seed)
    exe = vkit.cc("http_drv", ["http_drv.c"])
    rng = random.Random(seed)
    # 1. the model
    cfg = write_cfg("C27_mc", "model", "SPECIFICATION LiveSpec\nINVARIANT ExactlyOnce\nINVARIANT ErrorCbAtMostOnce\nINVARIANT NeverStranded\n"
                                       "INVARIANT QueueConsistent\nPROPERTY EventuallySettled")
    res = vkit.tlc("HttpConn", cfg, workers=4, want_prints=False, timeout=900)
    chk.add_tlc("C27_mc", res)
    if res.distinct < 200:
        raise vkit.InfraError("vacuous HttpConn model run: %r" % res)
    # 2. fault scripts on the real client
    sc = scripts(rng, q)
    outs = vkit.run_driver(exe, sc, timeout=1500)
    traces, keep = [], []
    kinds = {}
    for s, o in zip(sc, outs):
        chk.count_case(s, nontrivial=True)
        k = "deadport" if s.get("deadport") else ("cancel" if s.get("cancel") else (s["conns"][0]["fault"] if s["conns"] else "reset-all"))
        kinds[k] = kinds.get(k, 0) + 1
        if o is None or "crash" in o:
            chk.violation("fault script %s: driver crashed (sanitizer report?): %s" % (json.dumps(s)[:400], (o or {}).get("crash", "no output")[-1500:]), s)
            continue
        if o.get("hang"):
            chk.violation("fault script %s: a request never completed (15 s watchdog); events %s" % (json.dumps(s)[:400], json.dumps(o["ev"])), s)
            continue
        traces.append([["reset", s["errcb"], s["retries"]]] + o["ev"]); keep.append(s)
    chk.cov["fault_kinds"] = kinds
    chk.cov["traces_validated_against_impl"] = len(traces)
    chk.cov["client_scripts"] = len(traces)
    chk.cov["events"] = sum(len(t) for t in traces)
    for attempt in range(4):
        bad, why = validate(chk, "C27_trace%d" % attempt, traces)
        if bad is None:
            break
        chk.violation("fault script %s: callbacks %s: %s" % (json.dumps(keep[bad])[:500], json.dumps(traces[bad]), why),
                      {"script": keep[bad], "events": traces[bad]})
        del traces[bad]; del keep[bad]
    for s, t in list(zip(keep, traces))[:3]:
        chk.sample({"script": {k: v for k, v in s.items() if k != "conns"}, "fault": s["conns"][0] if s["conns"] else None, "callbacks": t})
    run_server_side(chk, exe, rng, q)
    chk.cov["rule"] = ("TLC model-checks the life-cycle model; every fault script (EOF / reset / stall after each octet offset of 3 "
                       "exchanges, refused connects with retries, cancel before / during the exchange) runs on a real "
                       "evhttp_connection; the logged callbacks (make, cancel, err, done ok/failed, end) of all scripts are one "
                       "concatenated trace that TLC validates against the model: each completion exactly once, error callback at "
                       "most once and only with a failure / cancel, nothing outstanding at the end.")
    chk.assumptions += ["timeouts are real but short (60 ms) and only pace the run: no oracle depends on time",
                        "server side (at most one response per request, evhttp_set_max_connections) and evhttp_connection_free / "
                        "event_base_free at callback points are NOT covered by this reduced check",
                        "only the client-side request life cycle on one evhttp_connection is validated"]
    return chk.finish()
