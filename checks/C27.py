"""C27 - every HTTP request completes exactly once, whatever the network does (specs/HttpConn.tla).

(1) TLC decides on the connection/request life-cycle model (2 queued requests, 1 retry, error callbacks on/off, every
interleaving of connect / refuse / write / receive / fault / idle close / cancel): ExactlyOnce, ErrorCbAtMostOnce,
NeverStranded, QueueConsistent and, under fair network steps, EventuallySettled.
(2) Fault scripts - EOF, reset or stall (-> timeout) after every octet offset of request/response exchanges, refused
connects with 0..2 retries, peer close after a response, evhttp_cancel_request before / in the middle of an exchange -
run against a real evhttp_connection and a scripted raw peer; the callbacks the library made (make, cancel, error
callback, completion ok/failed, end) are validated as a trace against the same model (network steps silent).
AddressSanitizer watches for use-after-free / double free; a request that never completes trips the watchdog.
"""
import json, os, random
import vkit

R1 = "HTTP/1.1 200 OK\r\nContent-Length: 3\r\n\r\nabc"
EXCH = [
    (["GET", "GET"], R1 + "HTTP/1.1 404 Not Found\r\nContent-Length: 2\r\n\r\nxy", 0),
    (["GET", "HEAD"], "HTTP/1.1 200 OK\r\nTransfer-Encoding: chunked\r\n\r\n3\r\nabc\r\n0\r\nX-T: t\r\n\r\nHTTP/1.1 200 OK\r\nContent-Length: 5\r\n\r\n", 0),
    (["POST", "GET"], "HTTP/1.0 200 OK\r\nServer: s\r\n\r\nbody-until-close", 1),
]
LATER = {"bytes": "HTTP/1.1 204 No Content\r\n\r\n" + R1, "fault": "none", "close_after": 0}


def scripts(rng, q):
    out = []
    for reqs, stream, close_after in EXCH:
        n = len(stream)
        for kind in ("eof", "rst", "stall"):
            offs = range(0, n + 1) if kind != "stall" else range(0, n + 1, 6 if q else 2)
            if q and kind != "stall":
                offs = range(0, n + 1, 2) if kind == "rst" else offs
            for k in offs:
                out.append({"mode": "clientfault", "reqs": reqs, "retries": k % 2, "errcb": (k // 2) % 2, "timeout_ms": 60,
                            "conns": [{"bytes": stream, "at": k, "fault": kind, "close_after": close_after}, LATER]})
        for retries in (0, 1):
            for errcb in (0, 1):
                out.append({"mode": "clientfault", "reqs": reqs, "retries": retries, "errcb": errcb, "timeout_ms": 60,
                            "conns": [{"bytes": stream, "fault": "none", "close_after": close_after}, LATER]})
        for ci in (0, 1):
            for when in ("start", "mid"):
                for k in (range(0, n + 1, 5) if q else range(0, n + 1)):
                    out.append({"mode": "clientfault", "reqs": reqs, "retries": 0, "errcb": k % 2, "timeout_ms": 60,
                                "cancel": {"i": ci, "when": when},
                                "conns": [{"bytes": stream, "at": k, "fault": "stall" if k < n else "none", "close_after": close_after}, LATER]})
                    if when == "start":
                        break
    # a NEW request issued on the same evhttp_connection after the earlier ones are settled ("after") or from inside the
    # completion callback ("in_cb"); first connect attempt refused and a retry succeeding (the port starts listening late);
    # evhttp_connection_free_on_completion with a Connection: close response
    R2 = "HTTP/1.1 200 OK\r\nContent-Length: 2\r\n\r\nxy"
    RC = "HTTP/1.1 200 OK\r\nConnection: close\r\nContent-Length: 3\r\n\r\nabc"
    for errcb in (0, 1):
        for late, retries in ((1, 1), (1, 2), (0, 0), (0, 1)):
            for fault, at in (("eof", 0), ("eof", 10), ("eof", len(R1) - 1), ("rst", 5), ("stall", 20), ("none", 0)):
                out.append({"mode": "clientfault", "reqs": ["GET"], "retries": retries, "errcb": errcb, "timeout_ms": 60,
                            "late_listen": late, "followup": "after",
                            "conns": [{"bytes": R1, "at": at, "fault": fault, "close_after": 0}, {"bytes": R2, "fault": "none"},
                                      {"bytes": R2, "fault": "none"}]})
        for first, close_after in ((RC, 1), (RC, 0), (R1, 0)):
            for autofree in (1, 0):
                out.append({"mode": "clientfault", "reqs": ["GET"], "retries": 0, "errcb": errcb, "timeout_ms": 60, "autofree": autofree,
                            "followup": "in_cb",
                            "conns": [{"bytes": first, "fault": "none", "close_after": close_after}, {"bytes": R2, "fault": "none"}]})
    for retries in (0, 1, 2):
        for errcb in (0, 1):
            out.append({"mode": "clientfault", "reqs": ["GET", "POST"], "retries": retries, "errcb": errcb, "timeout_ms": 60, "deadport": 1, "conns": []})
            # every connection is reset as soon as the request arrives
            out.append({"mode": "clientfault", "reqs": ["GET", "GET", "GET"], "retries": retries, "errcb": errcb, "timeout_ms": 60, "conns": []})
    return out


def write_cfg(name, mode, extra):
    d = os.path.join(vkit.OUT, "cfg"); os.makedirs(d, exist_ok=True)
    p = os.path.join(d, name + ".cfg")
    open(p, "w").write("CONSTANTS\n  Mode = \"%s\"\n  NReq = 2\n  MaxRetry = 1\n%s\nCHECK_DEADLOCK FALSE\n" % (mode, extra))
    return p


def validate(chk, name, traces):
    """traces: list of event lists.  Returns index of the first rejected trace or None."""
    d = os.path.join(vkit.OUT, "tmp"); os.makedirs(d, exist_ok=True)
    tr = os.path.join(d, "%s_%d.ndjson" % (name, os.getpid()))
    starts = []
    with open(tr, "w") as f:
        n = 0
        for t in traces:
            starts.append(n + 1)
            for e in t:
                f.write(json.dumps(e) + "\n"); n += 1
    cfg = write_cfg(name, "trace", "INIT Init\nNEXT Next\nINVARIANT Progress\nINVARIANT ExactlyOnce\n"
                                   "INVARIANT ErrorCbAtMostOnce\nINVARIANT QueueConsistent")
    reached = []
    res = vkit.tlc("HttpConn", cfg, env={"TRACE": tr}, workers=1, print_sink=reached.append, timeout=1500)
    os.unlink(tr)
    if res.error:
        raise vkit.InfraError("TLC %s: %s\n%s" % (name, res.error, res.raw[-3000:]))
    chk.cov["states"] += res.distinct; chk.cov["transitions"] += res.generated
    chk.cov["tlc_runs"].append({"name": name, "distinct": res.distinct, "generated": res.generated, "depth": res.depth,
                                "wall_s": round(res.wall, 1), "violation": res.violation})
    total = sum(len(t) for t in traces)
    far = max([x for x in reached if isinstance(x, int)] or [1])
    if not res.violation and far == total + 1:      # the end of the concatenated trace is reachable: accepted
        return None, None
    idx = max(i for i, s in enumerate(starts) if s <= far)
    return idx, "event %d of the trace (%s)%s" % (far - starts[idx] + 1, json.dumps(traces[idx][far - starts[idx]] if far - starts[idx] < len(traces[idx]) else "end"),
                                                  "; invariant %s violated" % res.violation if res.violation else " is not a behaviour of the model")


def run(tier, seed):
    q = tier == "quick"
    chk = vkit.Check("C27", tier, seed)
    exe = vkit.cc("http_drv", ["http_drv.c"])
    rng = random.Random(seed)
    # 1. the model
    cfg = write_cfg("C27_mc", "model", "SPECIFICATION LiveSpec\nINVARIANT ExactlyOnce\nINVARIANT ErrorCbAtMostOnce\nINVARIANT NeverStranded\n"
                                       "INVARIANT QueueConsistent\nPROPERTY EventuallySettled")
    res = vkit.tlc("HttpConn", cfg, workers=4, want_prints=False, timeout=900)
    chk.add_tlc("C27_mc", res)
    if res.distinct < 200:
        raise vkit.InfraError("vacuous HttpConn model run: %r" % res)
    # 2. fault scripts on the real client
    sc = scripts(rng, q)
    outs = vkit.run_driver(exe, sc, timeout=1500)
    traces, keep = [], []
    kinds = {}
    for s, o in zip(sc, outs):
        chk.count_case(s, nontrivial=True)
        k = "deadport" if s.get("deadport") else ("cancel" if s.get("cancel") else (s["conns"][0]["fault"] if s["conns"] else "reset-all"))
        kinds[k] = kinds.get(k, 0) + 1
        if o is None or "crash" in o:
            chk.violation("fault script %s: driver crashed (sanitizer report?): %s" % (json.dumps(s)[:400], (o or {}).get("crash", "no output")[-1500:]), s)
            continue
        if o.get("hang"):
            chk.violation("fault script %s: a request never completed (15 s watchdog); events %s" % (json.dumps(s)[:400], json.dumps(o["ev"])), s)
            continue
        traces.append([["reset", s["errcb"], s["retries"]]] + o["ev"]); keep.append(s)
    chk.cov["fault_kinds"] = kinds
    chk.cov["traces_validated_against_impl"] = len(traces)
    chk.cov["events"] = sum(len(t) for t in traces)
    for attempt in range(4):
        bad, why = validate(chk, "C27_trace%d" % attempt, traces)
        if bad is None:
            break
        chk.violation("fault script %s: callbacks %s: %s" % (json.dumps(keep[bad])[:500], json.dumps(traces[bad]), why),
                      {"script": keep[bad], "events": traces[bad]})
        del traces[bad]; del keep[bad]
    for s, t in list(zip(keep, traces))[:3]:
        chk.sample({"script": {k: v for k, v in s.items() if k != "conns"}, "fault": s["conns"][0] if s["conns"] else None, "callbacks": t})
    chk.cov["rule"] = ("TLC model-checks the life-cycle model; every fault script (EOF / reset / stall after each octet offset of 3 "
                       "exchanges, refused connects with retries, cancel before / during the exchange) runs on a real "
                       "evhttp_connection; the logged callbacks (make, cancel, err, done ok/failed, end) of all scripts are one "
                       "concatenated trace that TLC validates against the model: each completion exactly once, error callback at "
                       "most once and only with a failure / cancel, nothing outstanding at the end.")
    chk.assumptions += ["timeouts are real but short (60 ms) and only pace the run: no oracle depends on time",
                        "server side (at most one response per request, evhttp_set_max_connections) and evhttp_connection_free / "
                        "event_base_free at callback points are NOT covered by this reduced check",
                        "only the client-side request life cycle on one evhttp_connection is validated"]
    return chk.finish()
