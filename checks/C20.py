"""C20 - bufferevent timeouts fire exactly when the direction has been idle that long (Bev.tla, binding G).

Under the virtual clock, TLC-generated histories of set_timeouts / enable / disable / write / loop(+t)
are replayed on pair, filter and socket bufferevents; the event callbacks (BEV_EVENT_TIMEOUT with
READING/WRITING) with their virtual time stamps and the enabled directions are compared after every step."""
from checks import bev_common as bc

T = {"write", "enable", "disable", "loop", "script", "tmo"}


def run(tier, seed):
    q = tier == "quick"
    inv = ["TypeOK", "TimeoutOnlyIfDue", "TimerIff", "TimerNotLate"]
    K = lambda tag, acts, **kw: bc.consts("pair", acts, 3, sizes=(1,), drains=(0,), script_until=0, wms=((0, 0),),
                                          durs=(0, 2), allow=(tag,), **kw)
    df = seed % 2 == 0
    EXH5 = lambda D: bc.consts("pair", {"write", "enable", "loop", "tmo", "tmor"}, D, sizes=(1,), drains=(0,), wms=((0, 0),),
                               durs=(0, 1, 2), oneway=True, script_until=0, tend=1)
    SK = lambda d, D: bc.consts("sock", T | ({"shut"} if not d else set()), D, sizes=(1, 2), drains=(0, 99), wms=((0, 0),),
                                durs=(0, 1, 2, 3), script_until=1, defer=d)
    known = [dict(name="C20_known_rt", key="pair-read-timeout-while-disabled",
                  consts=K("pair_rt_rearm", {"write", "tmo", "tmor", "flush"})),
             dict(name="C20_known_wt", key="pair-write-timeout-wrong-endpoint",
                  consts=K("pair_wt_endpoint", {"write", "enable", "tmo", "tmow"}))]
    DIRT = {"write", "enable", "loop", "wmr", "read", "tmo"}
    ALLW = [(lo, hi) for lo in (0, 3) for hi in (0, 1, 2)]
    # directed: set_timeouts(read) while the reader is suspended at its high watermark: no timeout while suspended,
    # exactly one T after the application drained
    TSUS = lambda k: dict(name="C20_%s_tmo_suspended" % k, scripts=bc.pair_tmo_suspended_family(k),
                          consts=bc.consts(k, DIRT, 9, sizes=(1, 2), wms=ALLW, durs=(0, 1, 2, 3), drains=(0, 99)))
    # directed: stalled peer (kernel buffer full, unit = 256 KB), the application keeps appending at intervals < T:
    # TIMEOUT|WRITING fires T after the last successful transfer (how much went out is left open)
    STALL = lambda d: dict(name="C20_sock_stall_" + ("def" if d else "imm"), scripts=bc.sock_stall_family(), units=(262144,),
                           consts=bc.consts("sock", DIRT, 9, sizes=(1, 4), wms=((0, 0),), durs=(0, 1, 2, 3), drains=(0, 99),
                                            stall=True, wirecap=1000, defer=d), invariants=("TypeOK", "TimeoutOnlyIfDue"))
    quick_gen = [
        # every 4-step history of: writer writes / reader sets a read timeout, enables, loops with time passing
        # (also the bounded model check of the quick tier: invariants on every state of every history)
        dict(name="C20_pair_exh5", consts=EXH5(4), ticks=(1000,), invariants=inv),
        # every 3-step history with read AND write timeouts and flushes; those that meet the trigger of one of the two
        # pair findings are the canonical scenarios of that finding
        dict(name="C20_pair_exh3", consts=bc.consts("pair", {"write", "enable", "loop", "tmo", "flush"}, 3, sizes=(1,), drains=(0,),
                                                    wms=((0, 0),), durs=(0, 2), script_until=0,
                                                    allow=("pair_rt_rearm", "pair_wt_endpoint")),
             known_keys={1: "pair-read-timeout-while-disabled", 2: "pair-write-timeout-wrong-endpoint"}),
        dict(name="C20_pair_rand", consts=bc.consts("pair", {"write", "enable", "loop", "script", "tmo", "tmor"}, 9,
                                                    sizes=(1, 2), drains=(0, 99), wms=((0, 0),), durs=(0, 1, 2, 3), script_until=1),
             simulate=25),
        dict(name="C20_sock_" + ("def" if df else "imm"), consts=SK(df, 10), simulate=25),
        TSUS("pair"), STALL(df),
    ]
    plan = {
        "mc": [] if q else [("C20_mc_pair", bc.consts("pair", T, 5, sizes=(1,), drains=(0, 99), wms=((0, 0),), durs=(0, 1, 2),
                                                      script_until=1), inv)],
        "gen": quick_gen if q else [
            dict(name="C20_pair_exh", consts=bc.consts("pair", {"write", "enable", "disable", "loop", "tmo", "tmor"}, 4,
                                                       sizes=(1,), drains=(0,), wms=((0, 0),), durs=(0, 2)), ticks=(1000,)),
            dict(name="C20_pair_exh5", consts=EXH5(5), ticks=(1000,)),
            # read timeouts with data flowing (write timeouts on pairs: see the known finding and C20_pair_wt)
            dict(name="C20_pair_rand", consts=bc.consts("pair", {"write", "enable", "loop", "script", "tmo", "tmor"}, 13,
                                                        sizes=(1, 2), drains=(0, 99), wms=((0, 0),), durs=(0, 1, 2, 3), script_until=1),
                 simulate=500, ticks=(1000, 1000000000)),
            dict(name="C20_pair_rw", consts=bc.consts("pair", T | {"wmr", "tmor"}, 14, sizes=(1, 2), drains=(0, 99),
                                                      wms=((0, 0), (0, 2)), durs=(0, 1, 2, 3), script_until=1), simulate=300),
            dict(name="C20_pair_wt", consts=bc.consts("pair", {"write", "enable", "disable", "loop", "tmo", "tmow"}, 9,
                                                      sizes=(1,), drains=(0,), wms=((0, 0),), durs=(0, 1, 2, 3), script_until=0),
                 simulate=300),
            dict(name="C20_sock_imm", consts=SK(False, 14), simulate=400, ticks=(1000, 1000000)),
            dict(name="C20_sock_def", consts=SK(True, 14), simulate=300),
            dict(name="C20_filt_read", consts=bc.consts("filt", T | {"tmor"}, 12, sizes=(1, 2), drains=(0, 99), wms=((0, 0),),
                                                        durs=(0, 1, 2, 3), script_until=1, filtfn="id"), simulate=300),
            TSUS("pair"), TSUS("filt"), STALL(False), STALL(True),
        ],
        "known": [] if q else known,
        "known_fixed": [dict(name="C20_known_stale", key="sock-stale-io-timeout",
                             consts=bc.consts("sock", T, 8),
                             ops=[{"a": "tmo", "e": 1, "tr": 2, "tw": 0}, {"a": "enable", "e": 1, "m": 2},
                                  {"a": "disable", "e": 1, "m": 2}, {"a": "tmo", "e": 1, "tr": 0, "tw": 0},
                                  {"a": "enable", "e": 1, "m": 2}, {"a": "write", "e": 2, "n": 1},
                                  {"a": "loop", "e": 2, "t": 0}, {"a": "loop", "e": 1, "t": 0},
                                  {"a": "loop", "e": 1, "t": 5}, {"a": "loop", "e": 1, "t": 5}])],
        "monitor_by_kind": {k: bc.mon_c20(k) for k in ("pair", "filt", "sock")},
        "need": ["tmo", "cb:e:f65", "cb:e:f66", "enable", "disable"],
        "rule": "TLC enumerates (pair_exh) or simulates histories of the Bev specification with read/write timeouts, "
                "enable/disable, writes, scripted reads and loop steps that advance the virtual clock; each is replayed on "
                "real pair / socket / filter bufferevents under the link-time virtual clock and the event callbacks with "
                "flags and virtual time stamp, and the enabled directions, are compared after every step (a timeout that "
                "fires early, late, for a disabled direction, or not at all differs from the prediction); every history ends "
                "with two loop calls 5 ticks apart that flush out latent timers.",
        "assumptions": ["virtual clock via link-time wrapping of clock_gettime/gettimeofday/epoll_pwait2/poll/select",
                        "equal deadlines of two timers on one base are not generated (callback order unspecified)",
                        "on sockets the clock only advances when no I/O is ready (a starved loop is outside the property)",
                        "filter bufferevents: read timeouts only; pair write timeouts only where the known finding "
                        "pair-write-timeout-wrong-endpoint is not triggered",
                        "histories where a watermark callback restarts the read timeout without a transfer (trigger wm_tmo) "
                        "are not generated; rate-limit suspension is not generated"],
    }
    return bc.standard_run("C20", tier, seed, plan)
