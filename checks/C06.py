"""C06 - the epoll change table yields the intended kernel operation for every case.

EpollTable.tla states what a correct table must satisfy; the table itself is the
compiled one (dumped by harness/epolltable_dump.c, which textually includes
/repo/epoll.c).  TLC evaluates every clause on all 512 rows; the specification's
kernel model and its model of epoll_apply_one_change are validated against the
real kernel / the real function on every row."""
import json, os
import vkit
from checks import backend_common as bc

INVS = ["InvSize", "InvIndex", "InvImpossibleNoOp", "InvNoChangeNoOp", "InvWellFormed", "InvLeavesDesired",
        "InvAccepted", "InvRobust"]


def run(tier, seed):
    chk = vkit.Check("C06", tier, seed)
    chk.cov["exhaustive"] = True
    exe = vkit.cc("epolltable_dump", ["epolltable_dump.c"])
    wd = bc.workdir()
    raw, recs = bc.run_tool(exe, ["dump"], "table dump")
    table = os.path.join(wd, "C06_table.ndjson")
    with open(table, "w") as f:
        f.write(raw)
    rows = [r for r in recs if r["k"] == "row"]
    idxs = [r for r in recs if r["k"] == "idx"]
    if len(idxs) != 1024 or not rows:
        raise vkit.InfraError("table dump incomplete: %d rows %d index records" % (len(rows), len(idxs)))

    # 1. TLC: every clause on every row of the compiled table
    preds = []
    cfg = vkit.write_cfg("C06_table", {}, invariants=INVS + ["Emit"])
    res = vkit.tlc("EpollTable", cfg, env={"TABLE": table}, print_sink=preds.append, workers=4, timeout=300)
    chk.add_tlc("C06_table", res, expect_ok=False)
    if res.violation:
        chk.violation("clause %s of the table property is violated by the compiled table:\n%s" %
                      (res.violation, bc.tlc_state_of_violation(res.raw)),
                      {"table": rows, "violated": res.violation}, key="tlc:" + res.violation)
        # the remaining rows were not examined; the predictions are incomplete
        return chk.finish()
    if len(preds) != 512 or res.distinct != 512:
        raise vkit.InfraError("vacuous: TLC examined %d rows, emitted %d predictions" % (res.distinct, len(preds)))
    kern_pred = {}
    app_pred = {}
    for pl in preds:
        for p in pl:
            if p["k"] == "kern":
                kern_pred[p["i"]] = p
            else:
                app_pred[(p["old"], p["rc"], p["wc"], p["cc"], p["fl"], p["actual"])] = p

    # 2. the kernel model of the specification against the real kernel: every entry that issues an operation
    _, kern = bc.run_tool(exe, ["kernel"], "kernel application")
    issued = [i for i, p in kern_pred.items() if p["issues"]]
    if sorted(issued) != sorted(r["i"] for r in kern):
        chk.violation("set of entries issuing an operation differs: spec %d, program %d" % (len(issued), len(kern)),
                      {"spec": sorted(issued), "real": sorted(r["i"] for r in kern)}, key="kern-set")
    for r in kern:
        p = kern_pred.get(r["i"])
        if p is None:
            continue
        exp = {k: p[k] for k in ("ok", "on", "r", "w", "c", "et", "x")}
        d = vkit.deep_diff(exp, r, "entry%d" % r["i"])
        chk.count_case({"kern": r["i"]})
        chk.cov["traces_validated_against_impl"] += 1
        if d:
            chk.violation("real kernel disagrees with the specification's kernel model on table entry %d "
                          "(old=%d): %s" % (r["i"], r["old"], d), {"row": rows[r["i"]], "real": r, "spec": p},
                          key="kern:%d" % r["i"])

    # 3. the real epoll_apply_one_change on a real epoll fd, for every row without add+del, with and without ET,
    #    with the kernel holding `old` / nothing (fd closed and reopened) / everything (stale dup registration)
    _, app = bc.run_tool(exe, ["apply"], "epoll_apply_one_change application")
    seen = set()
    nreach = 0
    for r in app:
        key = (r["old"], r["rc"], r["wc"], r["cc"], r["fl"], r["actual"])
        p = app_pred.get(key)
        if p is None:
            raise vkit.InfraError("no prediction for %r" % (key,))
        seen.add(key)
        exp = {k: p[k] for k in ("ret", "on", "r", "w", "c", "et", "x")}
        d = vkit.deep_diff(exp, r, "apply%r" % (key,))
        chk.count_case({"app": key}, nontrivial=bool(p["reach"]))
        nreach += p["reach"]
        chk.cov["traces_validated_against_impl"] += 1
        if d:
            chk.violation("epoll_apply_one_change(old=%d read=%d write=%d close=%d et=%d) on a kernel registration %d: %s"
                          % (key + (d,)), {"real": r, "spec": p}, key="app:%s" % (key,))
    if seen != set(app_pred):
        raise vkit.InfraError("apply mode skipped %d predicted cases" % len(set(app_pred) - seen))
    chk.sample({"row": rows[68], "kernel_prediction": kern_pred[68]})
    chk.sample({"apply_prediction": app_pred[(1, 2, 1, 0, 1, 1)]})
    chk.sample({"apply_prediction_fd_reopened": app_pred[(1, 2, 1, 0, 0, 0)]})
    chk.cov["rows"] = 512
    chk.cov["reachable_apply_cases"] = nreach
    chk.cov["rule"] = ("TLC evaluates the eight clauses (size, index macro incl. flag bits, impossible=>no-op, "
                       "no-change=>no-op, well-formed, leaves-desired, accepted-when-reachable, robust under "
                       "fallbacks) on all 512 rows of the compiled table; then every operation-issuing entry is applied "
                       "to a real epoll fd holding `old` and (result, fdinfo registration) compared with the "
                       "specification's kernel model, and the real epoll_apply_one_change is run for all 8x3x3x3 rows "
                       "x ET x {kernel holds old, nothing, everything} and compared with the model (return value + "
                       "fdinfo registration incl. EPOLLET). non-trivial = rows evmap/changelist can produce.")
    chk.assumptions += ["epoll.c is textually included by the harness (global symbol epollops renamed), so the table, "
                        "the index macro and epoll_apply_one_change are the repository's",
                        "kernel registration read from /proc/self/fdinfo/<epfd>; EPOLLERR|EPOLLHUP implied by the kernel are masked",
                        "the fd is a UNIX socketpair end (epoll_ctl EPERM/EBADF paths are not part of this property)"]
    return chk.finish()
