"""C10 - finalizers exactly once, nothing after release, once-events (EventCore.tla part; binding G, ASan)."""
from checks import eventcore_common as ec

A = {"new", "free", "fin", "once", "exit", "act", "add", "del", "loop", "flags", "script", "basefree", "adv", "feed", "later"}
S = {"free", "fin", "del", "act", "break"}


def run(tier, seed):
    q = tier == "quick"
    plan = {
        "mc": [("C10_mc", ec.consts({1, 3}, {"fin", "free", "new", "once", "act", "loop", "basefree"}, 4 if q else 5, durs=(0, 1)))],
        "gen": [
            dict(name="C10_exh", consts=ec.consts({1, 3}, {"fin", "free", "once", "act", "add", "loop", "basefree", "script"},
                                                  3, durs=(0, 1), scriptops={"free", "fin"})),
        ] + ([] if q else [
            # depth 4 on one event (the depth-4 space over two events does not finish in the time budget)
            dict(name="C10_exh4", consts=ec.consts({3}, {"fin", "free", "once", "act", "add", "loop", "basefree", "script"},
                                                   4, durs=(0, 1), scriptops={"free", "fin"})),
        ]) + [
            dict(name="C10_rand", consts=ec.consts({1, 2, 3, 4}, A, 16 if q else 28, durs=(0, 1, 2), scriptops=S, prealloc=False),
                 simulate=120 if q else 500, depth=600, constraint="GenConstraintNT"),
        ],
        "need_ops": ["fin", "free", "once", "basefree", "loop", "cb:fin", "cb:once", "cb:cb", "script:free", "script:fin"],
        "rule": "histories that create, activate, finalize (event_finalize / event_free_finalize) and free events and once-events at "
                "every point incl. from inside their own callbacks, ending with event_base_free (with/without finalizers) at every "
                "point; every finalizer / callback invocation is logged and compared with the model (exactly once, after the last "
                "callback, never after release; once callbacks once or never); ASan build for use-after-free; after the "
                "teardown (every event released, base freed) the library's allocator balance and the descriptor table are back "
                "to their values before the scenario (resource balance through event_set_mem_functions / fcntl probe).",
        "assumptions": ["bufferevent/listener release is covered by C19/C44 checks, not here",
                        "resource balance is measured per scenario by the driver (allocator hooks, fd table), not by LeakSanitizer; "
                        "libevent_global_shutdown is not called between scenarios (one process replays many scenarios)"],
    }
    return ec.standard_run("C10", tier, seed, plan)


def replay(case, seed):
    return ec.replay_case("C10", case, seed)
