"""C30 - requests are routed to the callback registered for their path and host (specs/HttpRoute.tla).

TLC enumerates (configuration, allowed-method set, method, target, Host value), computes the reference route
(501 / callback of a node for a path / general callback of a node / 404), checks properties of the reference matcher
(exact decoded-path equality, mask first, alias beats pattern, wildcard matcher agrees with an independent
prefix/suffix formulation) and prints every scenario.  The driver builds the evhttp tree (evhttp_set_cb,
evhttp_set_gencb, evhttp_add_virtual_host, evhttp_add_server_alias, evhttp_set_allowed_methods), sends the request
over loopback TCP and logs which registration received it / the status.
"""
import json, random
import vkit

K_NUL = "C30-percent-00-truncates-path"
K_STAR = "C30-trailing-wildcard-never-matches"


def host_of(sc):
    import re
    t, h = sc["t"], sc["host"]
    if t.lower().startswith("http://"):
        h = re.split(r"[/?#]", t[7:])[0]
    return re.sub(r":\d*$", "", h).lower() if not h.startswith(":") else h.lower()


def finding_key(s):
    """trailing-'*' patterns: any scenario whose host a pattern ending in '*' matches; then %00 targets."""
    import re
    h = host_of(s["sc"])
    if s["sc"]["host"] or s["sc"]["t"].lower().startswith("http://"):
        for nd in s["nodes"]:
            pat = nd["pattern"]
            if pat.endswith("*") and re.fullmatch(".*".join(re.escape(x) for x in pat.lower().split("*")), h):
                return K_STAR
    if "%00" in s["sc"]["t"]:
        return K_NUL
    return None
METH = {"GET": 1, "POST": 2, "PUT": 8}

TARGETS = ["/a", "/a/b", "/a%2Fb", "/a%2fb", "/%61", "/a?x=1", "/a%3Fx", "/admin%00x", "/a%00", "/zz%00", "/a/", "/a/../a",
           "/A", "/a%", "/a%zz", "/a%2", "/b", "/admin", "/a#f", "/a%252Fb", "http://v.example.com/a", "http://plain.test:81/admin?q",
           "http://alias.test", "/a/b?x#y", "/%2e%2e/a"]
HOSTS = ["www.example.com", "www2.example.com", "www22.example.com:80", "a.test", "ba.test", "xy.org", "xay.org", "XYb.org", "xaybb.org",
         "ww.example.com", "", "plain.test", "v.example.com", "V.Example.COM", "v.example.com:8080", "v.example.com.", "alias.test", "ALIAS.test:80",
         "www.deep.example.com", "exact.test", "exact.test:", "example.com", "root.test", "a.example.org",
         "xexact.test"]


def run(tier, seed):
    q = tier == "quick"
    chk = vkit.Check("C30", tier, seed)
    exe = vkit.cc("http_drv", ["http_drv.c"])
    consts = {"Configs": {"flat", "nogen", "vhosts", "shadow", "stars"} if not q else {"flat", "vhosts", "shadow", "stars"},
              "Targets": set(TARGETS) if not q else set(TARGETS[:18] + TARGETS[20:23]), "Hosts": set(HOSTS) if not q else set(HOSTS[:19]),
              "Methods": {"GET", "POST", "PUT"} if not q else {"GET", "PUT"},
              "Masks": vkit_sets([{"GET"}, {"GET", "POST"}, {"GET", "POST", "PUT"}] if not q else [{"GET"}, {"GET", "POST", "PUT"}])}
    cfg = write_cfg("C30_gen", consts)
    scen, seen = [], set()

    def sink(v):
        k = json.dumps([v["sc"], v["masks"]], sort_keys=True)
        if k not in seen:
            seen.add(k); scen.append(v)
    res = vkit.tlc("HttpRoute", cfg, print_sink=sink, workers=4, timeout=1500)
    chk.add_tlc("C30_gen", res)
    if len(scen) < 100:
        raise vkit.InfraError("vacuous HttpRoute run: %r\n%s" % (res, res.raw[-2000:]))
    kinds = {}
    jobs = []
    for s in scen:
        allowed = sum(METH[m] for m, f in (("GET", "g"), ("POST", "p"), ("PUT", "u")) if s["masks"][f])
        jobs.append({"mode": "server", "cfg": {}, "bytes": s["bytes"], "segs": [[]], "eof": 0,
                     "route": {"allowed": allowed, "nodes": s["nodes"]}})
        kinds[s["expect"]["k"]] = kinds.get(s["expect"]["k"], 0) + 1
        chk.count_case([s["sc"], s["masks"]], nontrivial=True)
    chk.cov["expected_outcomes"] = kinds
    if min(kinds.get(k, 0) for k in ("cb", "gen", "404", "501")) == 0:
        raise vkit.InfraError("vacuous corpus: %s" % kinds)
    outs = vkit.run_driver(exe, jobs, timeout=1500)
    nfail = 0
    for s, j, o in zip(scen, jobs, outs):
        chk.cov["traces_validated_against_impl"] += 1
        e = s["expect"]
        if o is None or "crash" in o or o.get("hang") or len(o["runs"]) != 1:
            if o and o.get("hang"):
                raise vkit.InfraError("driver hang on %s" % json.dumps(s["sc"]))
            got = "crash: %s" % (o or {}).get("crash", "no output")
        else:
            ob = o["runs"][0]["o"]
            if len(ob["d"]) == 1 and ob["st"][:1] == [200]:
                got = ob["d"][0].get("r", "?")
            elif not ob["d"] and len(ob["st"]) == 1:
                got = str(ob["st"][0])
            else:
                got = "unexpected: %s" % json.dumps(ob)[:300]
        want = {"cb": "cb:%d:%s" % (e["node"], e["path"]), "gen": "gen:%d" % e["node"], "404": "404", "501": "501"}[e["k"]]
        if got != want:
            key = finding_key(s)
            nfail += 0 if key else 1          # keyed (open finding) failures do not use up the report budget
            if key or nfail <= 8:
                chk.violation("config %s allowed %s: %s %s Host %r routed to %s, reference: %s" % (
                    s["sc"]["cfg"], s["masks"], s["sc"]["m"], s["sc"]["t"], s["sc"]["host"], got, want),
                    {"scenario": j, "expect": e, "observed": o}, key=key)
    for s in scen[:3]:
        chk.sample({"scenario": s["sc"], "allowed": s["masks"], "reference_route": s["expect"]})
    chk.cov["rule"] = ("TLC enumerates every (configuration, allowed-method set, method, target, Host) over the alphabets, decides the "
                       "reference route and its properties; each scenario is replayed on a freshly built evhttp tree over loopback "
                       "TCP; the registration that received the request (node, path / general callback) or the 404 / 501 status must "
                       "equal the reference route.")
    chk.assumptions += ["allowed-method sets are only set on the listening server (libevent ignores a virtual host's own set)",
                        "a request without any host information skips virtual-host selection",
                        "IPv6 literals and userinfo in Host are not exercised"]
    return chk.finish()


class _Raw:
    def __init__(self, s): self.s = s


def vkit_sets(sets):
    return _Raw("{" + ", ".join("{" + ", ".join('"%s"' % x for x in sorted(s)) + "}" for s in sets) + "}")


def write_cfg(name, consts):
    import os
    d = os.path.join(vkit.OUT, "cfg"); os.makedirs(d, exist_ok=True)
    p = os.path.join(d, name + ".cfg")
    L = ["CONSTANTS"] + ["  %s = %s" % (k, v.s if isinstance(v, _Raw) else vkit.tla_val(v)) for k, v in consts.items()]
    L += ["INIT Init", "NEXT Next", "INVARIANT ExactPath", "INVARIANT MaskFirst", "INVARIANT GlobAgrees", "INVARIANT AliasWins",
          "INVARIANT ChosenMatches", "INVARIANT Emit", "CHECK_DEADLOCK FALSE"]
    open(p, "w").write("\n".join(L) + "\n")
    return p
