"""C42 - tagged-data encoding round-trips and decoding never over-reads (Evtag.tla, binding G + ASan)."""
from checks import util_common as uc
import vkit

LAWS = ["CodecLaw", "DecodeEncode", "OneItem"]


def run(tier, seed):
    q = tier == "quick"
    chk = vkit.Check("C42", tier, seed)
    uc.driver()
    plan = [("rt", 2 if q else 3, "b5"), ("one", 1, "b5"), ("dec", 4 if q else 6, "b5"), ("dec", 6 if q else 7, "b4"), ("dec", 6 if q else 8, "b3")]
    splits = 0
    for mode, n, alpha in plan:
        name = "C42_%s_%s" % (mode, alpha)
        recs, res = uc.gen(chk, "Evtag", name, {"Mode": mode, "MaxLen": n, "Alphabet": alpha}, LAWS)
        if mode == "dec":
            cases = [uc.tag_dec_case(r) for r in recs]
            exp = [uc.tag_dec_expected(r) for r in recs]
        else:
            recs = [r for r in recs if r["items"]]
            cases = [uc.tag_rt_case(r) for r in recs]
            exp = [uc.tag_rt_expected(r) for r in recs]
        outs = uc.drive(cases)
        splits += sum(o.get("splits", 0) for o in outs if isinstance(o, dict))
        uc.compare(chk, name, cases, exp, outs, limit=6,
                   nontrivial=lambda c: len(c.get("items", c.get("b", []))) >= (1 if "items" in c else 2))
        chk.sample({"gen": name, "case": cases[len(cases) // 2], "expected": exp[len(cases) // 2]})
        chk.cov.setdefault("corpus", {})[name] = len(cases)
    chk.cov["chain_split_executions"] = splits
    chk.cov["exhaustive"] = True
    chk.cov["rule"] = ("Evtag.tla models integers as nibble sequences and tags as 7-bit group sequences (no 32-bit limit). "
                       "TLC decides CodecLaw (every nibble length 0..16 x leading nibble {1,8,F} x fill {0,F}; tags at every "
                       "7-bit boundary up to 2^32-1; truncations fail), DecodeEncode (item words read back in order return "
                       "tag, length, value and leave exactly the rest) and OneItem, and prints items + wire bytes + the "
                       "expected result of every call. The driver marshals with the real evtag_marshal* functions, compares "
                       "the wire bytes, then unmarshals (peek, payload_length, peek_length, typed unmarshal) from an evbuffer "
                       "made of exact-size reference chains: one chain, split in two at every position, one chain per byte; "
                       "all configurations must give the same observations as the model. Arbitrary byte strings over "
                       "{00,0F,7F,80,FF} (and longer ones over {00,0F,10,80} and {00,01,02}: short items that really decode, also with a declared length larger than the integer inside, followed by more data) go through every decoder "
                       "(decode_tag/int/int64, payload_length, peek_length, unmarshal_header, consume, unmarshal, "
                       "unmarshal_int/int64/string/timeval/fixed): fail, or exactly the model's value and remaining length. "
                       "ASan reports any read outside a chain's block. non-trivial = at least one item / two bytes.")
    chk.assumptions += [
        "on failure the amount consumed is left open (the property only fixes it for success)",
        "named deviations modelled as the code behaves: non-canonical encodings decode; the padding nibble is ignored; "
        "integer/timeval payloads may be longer than the integers inside",
        "payload lengths >= 2^24 are treated as never present; peek_length is not compared for them",
        "memory-safety clauses are observed by AddressSanitizer, not decided by TLC",
    ]
    return chk.finish()


def replay(stored, seed):
    return uc.replay("C42", stored)
