"""C21 - token-bucket refill arithmetic is exact and cannot overflow (TokenBucket.tla).

 1. Apalache decides the theorems of specs/TokenBucket.tla at the real word widths (64/32 bit,
    symbolic, all inputs): Exact, SkipUnchanged, TickExact, TickDiff, CfgNewExact.
 2. TLC decides the same theorems exhaustively for a small word (M=64, NM=8) - a cross-check of
    the fixed-width transcription with the explicit-state engine.
 3. Binding: the compiled ev_token_bucket_update_/get_tick_/cfg_new are run on boundary vectors
    derived from the specification's case split plus seeded random vectors; Apalache evaluates the
    *property* operators (UpdateSpec, TickSpec, CfgNewSpec) on every observed (input, output).
 4. ExactAll ("every current bucket level", i.e. also levels above the burst, reachable with the
    documented negative bufferevent_decrement_*_limit) is decided by Apalache as well; its
    counterexample is replayed into the compiled function together with an above-burst corpus.
"""
import random, json
from concurrent.futures import ThreadPoolExecutor
import vkit
from checks import ratelim_common as rc

SMAX = 2 ** 63 - 1
SMIN = -2 ** 63
NM = 2 ** 32
IMAX = 2 ** 31 - 1
KEY_ABOVE = "refill-level-above-burst"


def dir_boundary(rng):
    """Direction tuples (level, max, rate) per n around every branch of the refill, level <= max.
    Returns (edge, rest): edge = exactly at / one off the guard and the unsigned-subtraction edges."""
    out = []
    edge = []
    maxes = [1, 2, 3, 1000, 2 ** 32, 2 ** 32 + 1, 2 ** 62, SMAX - 1, SMAX]
    ns = [1, 2, 3, 1000, 2 ** 16, IMAX - 1, IMAX]
    for mx in maxes:
        rates = sorted({r for r in (1, 2, 3, mx // 3, mx // 2, mx - 1, mx) if 1 <= r <= mx})
        for rt in rates:
            for n in ns:
                levels = {SMIN + 1, -1, 0, 1, mx - 1, -mx, mx // 2}
                # both sides of the guard (max-level)/n < rate  <=>  max-level < n*rate
                for d in (n - 1, n, -n):
                    levels.add(mx - (n * rt + d))
                elev = {mx - (n * rt + d) for d in (-1, 0, 1)} | {SMIN, mx}
                # max - level near 2^63 / 2^64 (the unsigned subtraction)
                elev |= {mx - 2 ** 63, mx - 2 ** 63 + 1, mx - 2 ** 63 - 1}
                for lv in elev:
                    if SMIN <= lv <= mx:
                        edge.append((n, lv, mx, rt))
                for lv in levels - elev:
                    if SMIN <= lv <= mx:
                        out.append((n, lv, mx, rt))
    return edge, out


def dir_random(rng, count):
    out = []
    for _ in range(count):
        mx = min(SMAX, max(1, rng.getrandbits(rng.randrange(1, 64))))
        rt = max(1, min(mx, rng.getrandbits(rng.randrange(1, 64))))
        n = max(1, min(IMAX, rng.getrandbits(rng.randrange(1, 32))))
        mode = rng.randrange(4)
        if mode == 0:
            lv = rng.randrange(SMIN, mx + 1)
        elif mode == 1:
            lv = mx - n * rt + rng.randrange(-3, 4)      # around the guard
        elif mode == 2:
            lv = -rng.getrandbits(rng.randrange(1, 64))
        else:
            lv = mx - rng.getrandbits(rng.randrange(1, 40))
        lv = max(SMIN, min(mx, lv))
        out.append((n, lv, mx, rt))
    return out


def pair_up(rng, dirs, limit):
    """Combine two direction tuples with the same n into one call (read side, write side)."""
    byn = {}
    for n, lv, mx, rt in dirs:
        byn.setdefault(n, []).append((lv, mx, rt))
    vecs = []
    for n, lst in byn.items():
        rng.shuffle(lst)
        if len(lst) % 2:
            lst.append(lst[0])
        for a, b in zip(lst[0::2], lst[1::2]):
            last = rng.choice([0, 1, NM - 1, NM - n, rng.randrange(NM)]) % NM
            vecs.append((a[0], b[0], last, a[2], a[1], b[2], b[1], (last + n) % NM))
    rng.shuffle(vecs)
    return vecs[:limit] if limit else vecs


def skip_vectors(rng, q=False):
    """n = 0, time going backwards (n > INT_MAX), tick counter wrap-around."""
    vecs = []
    for last in ((0, NM - 1, rng.randrange(NM)) if q else (0, 1, 5, NM - 1, 2 ** 31, rng.randrange(NM))):
        for n in (0, IMAX + 1, IMAX + 2, NM - 1, NM - 2, 2 ** 31 + 12345):
            vecs.append((rng.randrange(-1000, 500), -7, last, 3, 500, 9, 1000, (last + n) % NM))
        for n in (1, IMAX):     # not skipped, across the wrap
            vecs.append((rng.randrange(-1000, 500), -7, last, 3, 500, 9, 1000, (last + n) % NM))
    return vecs


def above_vectors(rng, extra):
    """Levels above the burst (reachable via a negative bufferevent_decrement_*_limit)."""
    vecs = []
    for mx, rt, n in ((1000, 1000, 1), (1000, 1, 3), (2 ** 32, 2 ** 32, IMAX), (2 ** 62, 2 ** 62, 1), (1, 1, 1), (SMAX, 1, 1)):
        for lv in (mx + 1, 2 * mx, SMAX):
            if mx < lv <= SMAX:
                vecs.append((lv, 0, 7, rt, mx, 1, 10, 7 + n))
                vecs.append((0, lv, NM - 1, 1, 10, rt, mx, (NM - 1 + n) % NM))
    return vecs + list(extra)


def upd_expr(v, o):
    return "VecUpd(%s)" % ", ".join(rc.tla_int(x) for x in list(v) + list(o))


def run(tier, seed):
    q = tier == "quick"
    chk = vkit.Check("C21", tier, seed)
    rng = random.Random(seed)
    exe = vkit.cc("tokenbucket_drv", ["tokenbucket_drv.c"])

    # ---- 1. symbolic theorems at the real widths (Apalache) and 2. TLC, small word, exhaustive
    A64 = "TokenBucket_A64"
    small = {"M": 64 if q else 96, "NM": 8, "KMS": 3}
    def tlc_small():
        out = []
        for name, init, nxt, invs in (("C21_upd", "InitEnum", "Next", ["Exact", "SkipUnchanged"]),
                                      ("C21_tick", "InitFreeEnum", "Stutter", ["TickExact"]),
                                      ("C21_diff", "InitDiffEnum", "Stutter", ["TickDiff"])):
            cfg = vkit.write_cfg(name, small, invariants=invs, init=init, next_=nxt)
            out.append((name, vkit.tlc("TokenBucket", cfg, want_prints=False, coverage=True, workers=4)))
        return out
    pool = ThreadPoolExecutor(max_workers=5)
    f_tlc = pool.submit(tlc_small)
    th = [dict(name="Exact64", inv="Exact", init="InitSym", next_="Next", length=1),
          dict(name="SkipUnchanged64", inv="SkipUnchanged", init="InitSym", next_="Next", length=1),
          dict(name="TickExact64", inv="TickExact", init="InitFree", next_="Stutter", length=0),
          dict(name="TickDiff64", inv="TickDiff", init="InitFree", next_="Stutter", length=0),
          dict(name="CfgNewExact64", inv="CfgNewExact", init="InitFree", next_="Stutter", length=0),
          dict(name="ExactAll64", inv="ExactAll", init="InitSym", next_="Next", length=1, expect="any")]
    rall = rc.prove_many(chk, A64, th)["ExactAll64"]

    # ---- 3. vectors on the compiled functions
    edge, rest = dir_boundary(rng)
    ne, nb, nr = (60, 25, 25) if q else (900, 500, 600)
    upd = skip_vectors(rng, q) + pair_up(rng, edge, ne) + pair_up(rng, rest, nb) + pair_up(rng, dir_random(rng, 2 * nr), nr)
    extra = []
    if rall["cex"] and rall["itf"]:
        s = rc.itf_state(rall["itf"], 0)
        extra.append(tuple(s[k] for k in ("rl", "wl", "last", "rr", "rm", "wr", "wm", "cur")))
        chk.cov["exactall_counterexample"] = {k: str(s[k]) for k in ("rl", "wl", "last", "rr", "rm", "wr", "wm", "cur")}
    above = above_vectors(rng, extra)

    secs = [0, 1, 2, 59, 2 ** 31 - 1, 2 ** 31, 2 ** 32, 2 ** 40, (2 ** 64 - 1000) // 1000, (2 ** 64 - 1000) // 1000 - 1]
    usecs = [0, 1, 999, 1000, 1999, 500000, 999999]
    mpts = [1, 2, 3, 7, 999, 1000, 1001, 60000, IMAX, NM - 1]
    ticks = [(s, u, m) for s in secs for u in usecs for m in mpts]
    rng.shuffle(ticks)
    ticks = ticks[:30 if q else 400] + [(rng.randrange(0, 2 ** 34), rng.randrange(10 ** 6), rng.randrange(1, 5000)) for _ in range(10 if q else 150)]

    rates = [0, 1, 2, 1000, SMAX - 1, SMAX, SMAX + 1, 2 ** 64 - 1]
    tvs = [(0, 0, 0), (1, 0, 0), (1, 0, 999), (1, 0, 1000), (1, 0, 999999), (1, 1, 0), (1, 1, 500), (1, 2147483, 0), (1, 2147483, 999999),
           (1, 2147484, 0), (1, -1, 0), (1, -1, 500000), (1, SMIN, 0), (1, 2 ** 40, 0), (1, SMAX, 999999), (1, 0, 1999), (1, 3600, 1)]
    cfgs = []
    for _ in range(25 if q else 500):
        r1, b1, r2, b2 = (rng.choice(rates) for _ in range(4))
        if rng.random() < 0.6:      # mostly valid rate pairs so that the tick length decides
            r1, b1 = sorted((max(1, min(SMAX, r1)), max(1, min(SMAX, b1))))
            r2, b2 = sorted((max(1, min(SMAX, r2)), max(1, min(SMAX, b2))))
        cfgs.append((r1, b1, r2, b2) + rng.choice(tvs))
    for a in ((1, 1, 1, 1), (2, 1, 1, 1), (1, 1, 2, 1), (0, 1, 1, 1), (1, 1, 0, 1), (SMAX, SMAX, SMAX, SMAX),
              (SMAX + 1, SMAX + 1, 1, 1), (1, SMAX + 1, 1, 1), (1, 1, 1, SMAX + 1), (1, 1, SMAX + 1, SMAX + 1), (1, 2 ** 64 - 1, 1, 5)):
        cfgs.append(a + (1, 0, 5000)); cfgs.append(a + (0, 0, 0))

    def S(v):
        return [str(x) for x in v]
    outs = vkit.run_driver(exe, [{"k": "upd", "v": [S(v) for v in upd]}, {"k": "upd", "v": [S(v) for v in above]},
                                 {"k": "tick", "v": [S(v) for v in ticks]}, {"k": "cfg", "v": [S(v) for v in cfgs]}], shards=1)
    for o in outs:
        if o is None or "crash" in o:
            chk.violation("driver crashed on a vector batch: %s" % (o or {}).get("crash", "no output"), {"outs": str(o)[:2000]})
            return chk.finish()
    o_upd, o_above, o_tick, o_cfg = ([[int(x) for x in row] for row in o["o"]] for o in outs)

    e_upd = [upd_expr(v, o) for v, o in zip(upd, o_upd)]
    e_above = [upd_expr(v, o) for v, o in zip(above, o_above)]
    e_tick = ["VecTick(%s)" % ", ".join(rc.tla_int(x) for x in list(v) + o) for v, o in zip(ticks, o_tick)]
    e_cfg = ["VecCfg(%s)" % ", ".join(rc.tla_int(x) for x in list(v) + (o + [0] * 8)[:8]) for v, o in zip(cfgs, o_cfg)]

    for v, o in zip(upd, o_upd):
        n = (v[7] - v[2]) % NM
        chk.count_case(["upd", v], nontrivial=(0 < n <= IMAX))
    for v in ticks: chk.count_case(["tick", v])
    for v in cfgs: chk.count_case(["cfg", v])
    for v in above: chk.count_case(["above", v])
    chk.sample({"upd": S(upd[0]), "out": S(o_upd[0])}); chk.sample({"upd": S(upd[-1]), "out": S(o_upd[-1])})
    chk.sample({"tick": S(ticks[0]), "out": S(o_tick[0])}); chk.sample({"cfg": S(cfgs[0]), "out": S(o_cfg[0])})

    fams = (("upd", upd, o_upd, e_upd, None), ("tick", ticks, o_tick, e_tick, None),
            ("cfg", cfgs, o_cfg, e_cfg, None), ("above", above, o_above, e_above, KEY_ABOVE))
    futs = [pool.submit(rc.validate_vectors, chk, "TokenBucket", tag, exprs, chunk=100 if q else 150,
                        parallel=3 if tag == "upd" else 1, bisect=key is None) for tag, _, _, exprs, key in fams]
    for (tag, vecs, obs, exprs, key), f in zip(fams, futs):
        fails = f.result()
        chk.cov["traces_validated_against_impl"] += len(exprs)
        for i in fails:
            if key:
                chk.violation("at least one of the %d vectors with a level above the burst violates UpdateSpec, e.g. input %s -> observed %s "
                              "(min(burst, level+n*rate) expected)" % (len(vecs), S(vecs[0]), S(obs[0])),
                              {"kind": tag, "vectors": [S(v) for v in vecs], "observed": [S(o) for o in obs], "vector": S(vecs[0]),
                               "tla": exprs[0]}, key=key)
            else:
                chk.violation("%s vector %s -> compiled code returned %s; specification (TokenBucket.tla %s) disagrees" %
                              (tag, S(vecs[i]), S(obs[i]), exprs[i].split("(")[0]),
                              {"kind": tag, "vector": S(vecs[i]), "observed": S(obs[i]), "tla": exprs[i]}, key=key)
    for name, res in f_tlc.result():
        chk.add_tlc(name, res)
        if name == "C21_upd":
            chk.check_coverage(res, ["InitEnum", "Refill"], name)
    chk.cov["exhaustive"] = True
    pool.shutdown()

    chk.cov["rule"] = ("Apalache proves Exact/SkipUnchanged/TickExact/TickDiff/CfgNewExact for all 64-bit inputs (symbolic); TLC enumerates "
                       "every input at word size M=%d; each vector is one call of the compiled function whose complete result "
                       "(both levels, last_updated, return value / tick / accepted cfg fields) is checked by Apalache against the "
                       "property operators. distinct = distinct input vectors; non-trivial upd = a refill that is not skipped." % small["M"])
    chk.assumptions += ["LP64: size_t/ev_ssize_t/time_t are 64-bit two's complement, unsigned is 32-bit (TokenBucket_A64 constants)",
                        "cfg_new/get_tick are specified for normalised timevals (0 <= tv_usec < 10^6); other timevals are left open",
                        "get_tick exactness is claimed for tv_sec <= (2^64-1000)/1000 (no overflow before the divide)",
                        "Exact is proved for levels <= burst; levels above the burst are the separate ExactAll clause (known finding %s)" % KEY_ABOVE]
    return chk.finish()


def replay(case, seed):
    """Re-run one failing vector: ./check C21 --replay out/replay/C21/violation_N.json"""
    c = case["case"]
    exe = vkit.cc("tokenbucket_drv", ["tokenbucket_drv.c"])
    kind = {"above": "upd"}.get(c["kind"], c["kind"])
    o = vkit.run_driver(exe, [{"k": kind, "v": [c["vector"]]}], shards=1)[0]
    print("vector", c["vector"], "observed now", o, "observed then", c["observed"])
    chk = vkit.Check("C21", "replay", seed)
    obs = [int(x) for x in o["o"][0]]
    op = c["tla"].split("(")[0]
    nin = {"upd": 8, "tick": 3, "cfg": 7}[kind]
    expr = "%s(%s)" % (op, ", ".join(rc.tla_int(int(x)) for x in c["vector"][:nin] + ((obs + [0] * 8)[:8] if kind == "cfg" else obs)))
    fails = rc.validate_vectors(chk, "TokenBucket", "replay", [expr], chunk=1, parallel=1)
    print("VIOLATION reproduced" if fails else "vector now satisfies the specification")
    return 1 if fails else 0
