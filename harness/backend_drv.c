/* Driver for specs/Backend.tla (C05 binding G, C04 binding V).
 *
 * stdin : one scenario per line {"cfg":{...},"h":[op,...]}
 * stdout: one line per scenario {"obs":[obs,...]} - the observation after every op.
 *
 * cfg: backend "epoll"|"epollcl"|"poll"|"select", sigfd 0|1, mode "snap"|"real",
 *      fdnum [fd number of slot 1, ...], kind ["sp"|"tcp"|"pr"|"pw", ...], keeper [slot,...]
 * ops: add{e,fd,m,et} del{e} close{fd} reopen{fd} reinit (event_reinit in the same process)
 *      wait            one loop iteration (EVLOOP_ONCE|EVLOOP_NONBLOCK|EVLOOP_NO_EXIT_ON_EMPTY)
 *      pw drain fill pdrain pshut pclose prst {fd}   environment (peer) operations
 *
 * The backend's wait system call is wrapped at link time:
 *   mode snap: the wrapper records the interest set the kernel is given (epoll:
 *              /proc/self/fdinfo/<epfd>; poll: the pollfd array; select: the fd
 *              sets) and returns 0 without waiting           -> obs.k
 *   mode real: the wrapper performs the real call, and records interest set and
 *              what the kernel reported; before the loop the driver probes every
 *              slot with an independent zero-timeout poll(2), and again after it
 *              -> obs.p, obs.p2, obs.rep, obs.cb
 * No oracle logic here.
 */
#include <event2/event.h>
#include <event2/event_struct.h>
#include <event2/util.h>
#include <sys/epoll.h>
#include <sys/select.h>
#include <sys/socket.h>
#include <netinet/in.h>
#include <arpa/inet.h>
#include <poll.h>
#include <signal.h>
#include <unistd.h>
#include <fcntl.h>
#include <errno.h>
#include "mjson.h"

#define MAXFD 8
#define MAXEV 8

static struct event_base *base;
static struct event evs[MAXEV + 1];
static int ev_on[MAXEV + 1];
static int nslots;
static int fdnum[MAXFD + 1], peer[MAXFD + 1], keepfd[MAXFD + 1], is_open[MAXFD + 1], is_keeper[MAXFD + 1];
static const char *kind[MAXFD + 1];
static int snap_mode;
static FILE *out;

/* ---- capture buffers filled by the wrappers during one loop call */
static char kbuf[8192]; static size_t klen; static int nwaits;
static char rbuf[8192]; static size_t rlen;
static char cbuf[8192]; static size_t clen;
static int internal_fds[16], ninternal;

int __real_epoll_pwait2(int, struct epoll_event *, int, const struct timespec *, const sigset_t *);
int __real_epoll_wait(int, struct epoll_event *, int, int);
int __real_poll(struct pollfd *, nfds_t, int);
int __real_select(int, fd_set *, fd_set *, fd_set *, struct timeval *);

static int slot_of(int fd)
{
	for (int s = 1; s <= nslots; s++) if (fdnum[s] == fd) return s;
	return -fd - 1000; /* an fd the scenario does not know */
}
static int is_internal(int fd)
{
	for (int i = 0; i < ninternal; i++) if (internal_fds[i] == fd) return 1;
	return 0;
}
struct ent { int slot, r, w, c, et; unsigned x; };
static int ent_cmp(const void *a, const void *b)
{
	const struct ent *x = a, *y = b;
	return x->slot < y->slot ? -1 : x->slot > y->slot;
}
static void put_ents(struct ent *e, int n)
{
	qsort(e, n, sizeof(*e), ent_cmp);
	klen = 0;
	klen += snprintf(kbuf + klen, sizeof(kbuf) - klen, "[");
	for (int i = 0; i < n; i++)
		klen += snprintf(kbuf + klen, sizeof(kbuf) - klen, "%s{\"fd\":%d,\"r\":%d,\"w\":%d,\"c\":%d,\"et\":%d,\"x\":%u}",
		    i ? "," : "", e[i].slot, e[i].r, e[i].w, e[i].c, e[i].et, e[i].x);
	klen += snprintf(kbuf + klen, sizeof(kbuf) - klen, "]");
}

static void snap_epoll(int epfd)
{
	char path[64], line[256];
	struct ent e[64]; int n = 0;
	FILE *f;
	snprintf(path, sizeof(path), "/proc/self/fdinfo/%d", epfd);
	f = fopen(path, "r");
	if (!f) { klen = snprintf(kbuf, sizeof(kbuf), "\"nofdinfo\""); return; }
	while (fgets(line, sizeof(line), f)) {
		int t; unsigned ev;
		if (sscanf(line, "tfd: %d events: %x", &t, &ev) == 2 && n < 64 && !is_internal(t)) {
			ev &= ~(unsigned)(EPOLLERR | EPOLLHUP);
			e[n].slot = slot_of(t); e[n].r = !!(ev & EPOLLIN); e[n].w = !!(ev & EPOLLOUT);
			e[n].c = !!(ev & EPOLLRDHUP); e[n].et = !!(ev & EPOLLET);
			e[n].x = ev & ~(unsigned)(EPOLLIN | EPOLLOUT | EPOLLRDHUP | EPOLLET);
			n++;
		}
	}
	fclose(f);
	put_ents(e, n);
}
static void snap_poll(struct pollfd *fds, nfds_t nfds)
{
	struct ent e[64]; int n = 0;
	for (nfds_t i = 0; i < nfds && n < 64; i++) {
		short ev = fds[i].events;
		if (is_internal(fds[i].fd)) continue;
		e[n].slot = slot_of(fds[i].fd); e[n].r = !!(ev & POLLIN); e[n].w = !!(ev & POLLOUT);
		e[n].c = !!(ev & POLLRDHUP); e[n].et = 0;
		e[n].x = (unsigned)(ev & ~(POLLIN | POLLOUT | POLLRDHUP));
		n++;
	}
	put_ents(e, n);
}
static void snap_select(int nfds, fd_set *r, fd_set *w, fd_set *x)
{
	struct ent e[64]; int n = 0;
	for (int fd = 0; fd < nfds && n < 64; fd++) {
		int ir = r && FD_ISSET(fd, r), iw = w && FD_ISSET(fd, w), ix = x && FD_ISSET(fd, x);
		if (!(ir || iw || ix) || is_internal(fd)) continue;
		e[n].slot = slot_of(fd); e[n].r = ir; e[n].w = iw; e[n].c = 0; e[n].et = 0; e[n].x = (unsigned)ix;
		n++;
	}
	put_ents(e, n);
}
static void rep_add(int fd, int code)
{
	if (is_internal(fd)) return;
	rlen += snprintf(rbuf + rlen, sizeof(rbuf) - rlen, "%s{\"fd\":%d,\"p\":%d}", rlen ? "," : "", slot_of(fd), code);
}
static int epoll_code(unsigned ev)
{
	return (ev & EPOLLIN ? 1 : 0) | (ev & EPOLLOUT ? 2 : 0) | (ev & EPOLLRDHUP ? 4 : 0) | (ev & EPOLLHUP ? 8 : 0) |
	    (ev & EPOLLERR ? 16 : 0);
}
static int poll_code(short ev)
{
	return (ev & POLLIN ? 1 : 0) | (ev & POLLOUT ? 2 : 0) | (ev & POLLRDHUP ? 4 : 0) | (ev & POLLHUP ? 8 : 0) |
	    (ev & POLLERR ? 16 : 0) | (ev & POLLNVAL ? 32 : 0);
}

int __wrap_epoll_pwait2(int epfd, struct epoll_event *ev, int max, const struct timespec *to, const sigset_t *mask)
{
	struct timespec zero = { 0, 0 };
	int n;
	(void)to;
	nwaits++;
	snap_epoll(epfd);
	if (snap_mode) return 0;
	n = __real_epoll_pwait2(epfd, ev, max, &zero, mask);
	for (int i = 0; i < n; i++) rep_add(ev[i].data.fd, epoll_code(ev[i].events));
	return n;
}
int __wrap_epoll_wait(int epfd, struct epoll_event *ev, int max, int to_ms)
{
	int n;
	(void)to_ms;
	nwaits++;
	snap_epoll(epfd);
	if (snap_mode) return 0;
	n = __real_epoll_wait(epfd, ev, max, 0);
	for (int i = 0; i < n; i++) rep_add(ev[i].data.fd, epoll_code(ev[i].events));
	return n;
}
int __wrap_poll(struct pollfd *fds, nfds_t nfds, int to_ms)
{
	int n;
	(void)to_ms;
	nwaits++;
	snap_poll(fds, nfds);
	if (snap_mode) { for (nfds_t i = 0; i < nfds; i++) fds[i].revents = 0; return 0; }
	n = __real_poll(fds, nfds, 0);
	for (nfds_t i = 0; n > 0 && i < nfds; i++) if (fds[i].revents) rep_add(fds[i].fd, poll_code(fds[i].revents));
	return n;
}
int __wrap_select(int nfds, fd_set *r, fd_set *w, fd_set *x, struct timeval *to)
{
	struct timeval zero = { 0, 0 };
	int n;
	(void)to;
	nwaits++;
	snap_select(nfds, r, w, x);
	if (snap_mode) {
		for (int fd = 0; fd < nfds; fd++) { if (r) FD_CLR(fd, r); if (w) FD_CLR(fd, w); if (x) FD_CLR(fd, x); }
		return 0;
	}
	n = __real_select(nfds, r, w, x, &zero);
	for (int fd = 0; n > 0 && fd < nfds; fd++) {
		int code = ((r && FD_ISSET(fd, r)) ? 1 : 0) | ((w && FD_ISSET(fd, w)) ? 2 : 0);
		if (code) rep_add(fd, code);
	}
	return n;
}

/* ---- callbacks */
static void io_cb(evutil_socket_t fd, short what, void *arg)
{
	int e = (int)(long)arg;
	int code = (what & EV_READ ? 1 : 0) | (what & EV_WRITE ? 2 : 0) | (what & EV_CLOSED ? 4 : 0);
	clen += snprintf(cbuf + clen, sizeof(cbuf) - clen, "%s{\"e\":%d,\"w\":%d,\"fd\":%d,\"raw\":%d}", clen ? "," : "", e, code,
	    slot_of(fd), (int)what);
}
static int collect_internal(const struct event_base *b, const struct event *ev, void *arg)
{
	(void)b; (void)arg;
	if ((ev->ev_evcallback.evcb_flags & EVLIST_INTERNAL) && (ev->ev_events & (EV_READ | EV_WRITE | EV_CLOSED)) &&
	    ninternal < 16)
		internal_fds[ninternal++] = ev->ev_fd;
	return 0;
}
static void quiet_log(int sev, const char *msg) { (void)sev; (void)msg; }

/* ---- fd slots */
static void set_nb(int fd) { fcntl(fd, F_SETFL, fcntl(fd, F_GETFL) | O_NONBLOCK); }
static int make_pair(const char *k, int p[2]) /* p[0]: our end, p[1]: the peer */
{
	if (!strcmp(k, "sp")) {
		if (socketpair(AF_UNIX, SOCK_STREAM, 0, p) < 0) return -1;
	} else if (!strcmp(k, "pr")) {
		int q[2]; if (pipe(q) < 0) return -1; p[0] = q[0]; p[1] = q[1];
	} else if (!strcmp(k, "pw")) {
		int q[2]; if (pipe(q) < 0) return -1; p[0] = q[1]; p[1] = q[0];
	} else { /* tcp over loopback */
		struct sockaddr_in sin; socklen_t sl = sizeof(sin);
		int l = socket(AF_INET, SOCK_STREAM, 0), c, a;
		if (l < 0) return -1;
		memset(&sin, 0, sizeof(sin)); sin.sin_family = AF_INET; sin.sin_addr.s_addr = htonl(INADDR_LOOPBACK);
		if (bind(l, (struct sockaddr *)&sin, sizeof(sin)) < 0 || listen(l, 1) < 0 ||
		    getsockname(l, (struct sockaddr *)&sin, &sl) < 0) { close(l); return -1; }
		c = socket(AF_INET, SOCK_STREAM, 0);
		if (c < 0 || connect(c, (struct sockaddr *)&sin, sizeof(sin)) < 0) { close(l); return -1; }
		a = accept(l, NULL, NULL);
		close(l);
		if (a < 0) return -1;
		p[0] = a; p[1] = c;
	}
	set_nb(p[0]); set_nb(p[1]);
	return 0;
}
static int open_slot(int s)
{
	int p[2];
	if (is_keeper[s] && keepfd[s] >= 0) { /* the same file again */
		if (dup2(keepfd[s], fdnum[s]) < 0) return -1;
		is_open[s] = 1;
		return 0;
	}
	if (make_pair(kind[s], p) < 0) return -1;
	if (peer[s] >= 0) close(peer[s]);
	if (dup2(p[0], fdnum[s]) < 0) return -1;
	if (is_keeper[s]) keepfd[s] = p[0]; else close(p[0]);
	peer[s] = p[1];
	is_open[s] = 1;
	return 0;
}
static int probe_slot(int s)
{
	struct pollfd pfd;
	if (!is_open[s]) return -1;
	pfd.fd = fdnum[s]; pfd.events = POLLIN | POLLOUT | POLLRDHUP; pfd.revents = 0;
	if (__real_poll(&pfd, 1, 0) < 0) return -2;
	return poll_code(pfd.revents);
}

static char junk[1 << 16];
static long do_env(const char *a, int s)
{
	long n = 0; ssize_t r;
	if (!strcmp(a, "pw")) return peer[s] >= 0 ? (long)write(peer[s], "x", 1) : -1;
	if (!strcmp(a, "drain")) { while ((r = read(fdnum[s], junk, sizeof(junk))) > 0) n += r; return n; }
	if (!strcmp(a, "fill")) { while ((r = write(fdnum[s], junk, sizeof(junk))) > 0) n += r; return n > 0; }
	if (!strcmp(a, "pdrain")) { while (peer[s] >= 0 && (r = read(peer[s], junk, sizeof(junk))) > 0) n += r; return n > 0; }
	if (!strcmp(a, "pshut")) return peer[s] >= 0 ? shutdown(peer[s], SHUT_WR) : -1;
	if (!strcmp(a, "pclose") || !strcmp(a, "prst")) {
		if (peer[s] < 0) return -1;
		if (!strcmp(a, "prst")) { struct linger lg = { 1, 0 }; setsockopt(peer[s], SOL_SOCKET, SO_LINGER, &lg, sizeof(lg)); }
		close(peer[s]); peer[s] = -1;
		return 0;
	}
	return -99;
}

static void run_scenario(jval *sc)
{
	jval *cfg = j_get(sc, "cfg"), *h = j_get(sc, "h"), *v;
	const char *backend = j_str(cfg, "backend", "epoll");
	struct event_config *ec = event_config_new();
	const char *all[] = { "epoll", "poll", "select", "kqueue", "devpoll", "evport", "win32", "wepoll", NULL };
	const char *want = !strcmp(backend, "epollcl") ? "epoll" : backend;
	int flags = EVENT_BASE_FLAG_IGNORE_ENV | EVENT_BASE_FLAG_NOLOCK;
	int first = 1;

	snap_mode = !strcmp(j_str(cfg, "mode", "snap"), "snap");
	for (int i = 0; all[i]; i++) if (strcmp(all[i], want)) event_config_avoid_method(ec, all[i]);
	if (!strcmp(backend, "epollcl")) flags |= EVENT_BASE_FLAG_EPOLL_USE_CHANGELIST;
	if (j_int(cfg, "sigfd", 0)) flags |= EVENT_BASE_FLAG_USE_SIGNALFD;
	event_config_set_flag(ec, flags);
	base = event_base_new_with_config(ec);
	event_config_free(ec);
	fprintf(out, "{\"method\":");
	j_put_str(out, base ? event_base_get_method(base) : "none", strlen(base ? event_base_get_method(base) : "none"));
	fprintf(out, ",\"obs\":[");
	if (!base) { fprintf(out, "],\"err\":\"no base\"}\n"); return; }

	v = j_get(cfg, "fdnum");
	nslots = v ? (int)v->n : 0;
	memset(ev_on, 0, sizeof(ev_on));
	for (int s = 1; s <= nslots; s++) {
		jval *kv = j_get(cfg, "kind");
		fdnum[s] = (int)v->items[s - 1]->i;
		kind[s] = (kv && kv->n >= (size_t)s) ? kv->items[s - 1]->str : "sp";
		peer[s] = keepfd[s] = -1; is_open[s] = 0; is_keeper[s] = 0;
	}
	if ((v = j_get(cfg, "keeper"))) for (size_t i = 0; i < v->n; i++) is_keeper[v->items[i]->i] = 1;
	for (int s = 1; s <= nslots; s++) if (open_slot(s) < 0) { fprintf(out, "],\"err\":\"slot setup\"}\n"); goto done; }

	for (size_t k = 0; h && k < h->n; k++) {
		jval *op = h->items[k];
		const char *a = j_str(op, "a", "");
		int e = (int)j_int(op, "e", 0), s = (int)j_int(op, "fd", 0);
		long r = 0;
		fprintf(out, "%s{", first ? "" : ","); first = 0;
		if (!strcmp(a, "add")) {
			int m = (int)j_int(op, "m", 0);
			short fl = EV_PERSIST | ((m & 1) ? EV_READ : 0) | ((m & 2) ? EV_WRITE : 0) | ((m & 4) ? EV_CLOSED : 0) |
			    (j_int(op, "et", 0) ? EV_ET : 0);
			event_assign(&evs[e], base, fdnum[s], fl, io_cb, (void *)(long)e);
			r = event_add(&evs[e], NULL);
			ev_on[e] = 1;
			fprintf(out, "\"r\":%ld", r);
		} else if (!strcmp(a, "del")) {
			r = event_del(&evs[e]);
			ev_on[e] = 0;
			fprintf(out, "\"r\":%ld", r);
		} else if (!strcmp(a, "close")) {
			r = close(fdnum[s]); is_open[s] = 0;
			fprintf(out, "\"r\":%ld", r);
		} else if (!strcmp(a, "reopen")) {
			r = open_slot(s);
			fprintf(out, "\"r\":%ld", r);
		} else if (!strcmp(a, "reinit")) {
			r = event_reinit(base);
			fprintf(out, "\"r\":%ld", r);
		} else if (!strcmp(a, "wait")) {
			klen = rlen = clen = 0; nwaits = 0; ninternal = 0;
			kbuf[0] = rbuf[0] = cbuf[0] = 0;
			event_base_foreach_event(base, collect_internal, NULL);
			fprintf(out, "\"p\":[");
			for (int t = 1; t <= nslots; t++) fprintf(out, "%s%d", t > 1 ? "," : "", snap_mode ? 0 : probe_slot(t));
			fprintf(out, "],");
			r = event_base_loop(base, EVLOOP_ONCE | EVLOOP_NONBLOCK | EVLOOP_NO_EXIT_ON_EMPTY);
			fprintf(out, "\"p2\":[");
			for (int t = 1; t <= nslots; t++) fprintf(out, "%s%d", t > 1 ? "," : "", snap_mode ? 0 : probe_slot(t));
			fprintf(out, "],");
			fprintf(out, "\"r\":%ld,\"nw\":%d,\"k\":%s,\"rep\":[%.*s],\"cb\":[%.*s]", r, nwaits, nwaits ? kbuf : "\"nowait\"",
			    (int)rlen, rbuf, (int)clen, cbuf);
		} else {
			r = do_env(a, s);
			fprintf(out, "\"r\":%ld", r);
		}
		fprintf(out, "}");
	}
	fprintf(out, "]}\n");
done:
	for (int e = 1; e <= MAXEV; e++) if (ev_on[e]) event_del(&evs[e]);
	event_base_free(base);
	base = NULL;
	for (int s = 1; s <= nslots; s++) {
		if (is_open[s]) close(fdnum[s]);
		if (peer[s] >= 0) close(peer[s]);
		if (keepfd[s] >= 0) close(keepfd[s]);
	}
}

int main(void)
{
	char *line;
	event_set_log_callback(quiet_log);
	signal(SIGPIPE, SIG_IGN);
	while ((line = j_readline(stdin))) {
		if (line[0]) {
			jval *sc = j_parse(line);
			char *mbuf = NULL; size_t mlen = 0;
			out = open_memstream(&mbuf, &mlen);
			run_scenario(sc);
			fclose(out);
			fwrite(mbuf, 1, mlen, stdout);
			fflush(stdout);
			free(mbuf);
			j_free_all();
		}
		free(line);
	}
	return 0;
}
