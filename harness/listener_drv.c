/* Driver for specs/Listener.tla (binding G, property C44).
 * stdin: one scenario per line {"cfg":{"n":N},"h":[step,...]}; every step is an op
 * record of the specification.  The op is performed on a real evconnlistener
 * bound to 127.0.0.1:0 with real loopback clients; accept4 is wrapped at link
 * time (-Wl,--wrap=accept4) and answers from the script carried by the "loop"
 * op before passing through to the kernel.  After every op the driver prints
 * what can be observed: return value, fds owned by the listener (by probing
 * the process's fd table), whether the listening socket is still open, what every
 * client sees, and for a loop step the accept-callback and error-callback logs.
 * No oracle logic here.
 */
#include <event2/event.h>
#include <event2/listener.h>
#include <event2/thread.h>
#include <event2/util.h>
#include <sys/socket.h>
#include <sys/stat.h>
#include <netinet/in.h>
#include <arpa/inet.h>
#include <poll.h>
#include <unistd.h>
#include <fcntl.h>
#include <errno.h>
#include <signal.h>
#include "mjson.h"

#define MAXC 8
static struct event_base *base;
static struct evconnlistener *lev;
static int lev_live;
static int lfd = -1, lport;
static ino_t lino;
static int nclients;
static struct { int fd; int port; int gone; } cl[MAXC + 1];
static int held[64], nheld;
static int baseline;
static FILE *out;

/* scripts of the current loop step */
static jval *ascr, *cscr;
static size_t ai, ci;
static const char *eact = "none";
static char cblog[4096], errlog[1024];
static size_t cblen, errlen;
static int ncb, nerr;

extern int __real_accept4(int fd, struct sockaddr *sa, socklen_t *len, int flags);
int __wrap_accept4(int fd, struct sockaddr *sa, socklen_t *len, int flags)
{
	const char *s = "ok";
	if (fd == lfd && ascr && ai < ascr->n) s = ascr->items[ai++]->str;
	if (!strcmp(s, "ok")) return __real_accept4(fd, sa, len, flags);
	if (!strcmp(s, "zlen")) { int r = __real_accept4(fd, sa, len, flags); if (r >= 0) *len = 0; return r; }
	if (!strcmp(s, "nosys")) errno = ENOSYS;
	else if (!strcmp(s, "again")) errno = EAGAIN;
	else if (!strcmp(s, "intr")) errno = EINTR;
	else if (!strcmp(s, "abort")) errno = ECONNABORTED;
	else if (!strcmp(s, "emfile")) errno = EMFILE;
	else if (!strcmp(s, "enfile")) errno = ENFILE;
	else if (!strcmp(s, "nomem")) errno = ENOMEM;
	else { fprintf(stderr, "bad accept script entry %s\n", s); exit(3); }
	return -1;
}

/* number of open descriptors of the process (the fd table is probed directly: cheaper than
 * reading /proc/self/fd and allocation-free; the driver never has more than a few dozen fds) */
#define FD_PROBE_MAX 48
static int count_fds(void)
{
	int fd, n = 0;
	for (fd = 0; fd < FD_PROBE_MAX; fd++)
		if (fcntl(fd, F_GETFD) != -1 || errno != EBADF) n++;
	return n;
}

static void fn1(struct evconnlistener *l, evutil_socket_t fd, struct sockaddr *sa, int socklen, void *arg);
static void fn2(struct evconnlistener *l, evutil_socket_t fd, struct sockaddr *sa, int socklen, void *arg);

static void do_act(struct evconnlistener *l, const char *a)
{
	if (!strcmp(a, "none")) return;
	if (!strcmp(a, "disable")) evconnlistener_disable(l);
	else if (!strcmp(a, "free")) { evconnlistener_free(l); lev_live = 0; }
	else if (!strcmp(a, "setnull")) evconnlistener_set_cb(l, NULL, NULL);
	else if (!strcmp(a, "setfn2")) evconnlistener_set_cb(l, fn2, (void *)2);
	else if (!strcmp(a, "disen")) { evconnlistener_disable(l); evconnlistener_enable(l); }
	else if (!strcmp(a, "disfree")) { evconnlistener_disable(l); evconnlistener_free(l); lev_live = 0; }
	else if (!strcmp(a, "nullfree")) { evconnlistener_set_cb(l, NULL, NULL); evconnlistener_free(l); lev_live = 0; }
	else if (!strcmp(a, "enfree")) { evconnlistener_enable(l); evconnlistener_free(l); lev_live = 0; }
	else if (!strcmp(a, "disenfree")) { evconnlistener_disable(l); evconnlistener_enable(l); evconnlistener_free(l); lev_live = 0; }
	else { fprintf(stderr, "bad callback action %s\n", a); exit(3); }
}

static void accept_cb(int f, struct evconnlistener *l, evutil_socket_t fd, struct sockaddr *sa, int socklen, void *arg)
{
	int c = -1, i, ok = 0, nb, ce, port = -1;
	struct sockaddr_in peer;
	socklen_t pl = sizeof(peer);
	if (sa && sa->sa_family == AF_INET && socklen == (int)sizeof(struct sockaddr_in)) {
		struct sockaddr_in *sin = (struct sockaddr_in *)sa;
		port = ntohs(sin->sin_port);
		for (i = 1; i <= nclients; i++) if (cl[i].port == port) c = i;
		ok = sin->sin_addr.s_addr == htonl(INADDR_LOOPBACK) &&
		    getpeername(fd, (struct sockaddr *)&peer, &pl) == 0 &&
		    peer.sin_port == sin->sin_port && peer.sin_addr.s_addr == sin->sin_addr.s_addr &&
		    l == lev && (intptr_t)arg == f;
	}
	nb = !!(fcntl(fd, F_GETFL) & O_NONBLOCK);
	ce = !!(fcntl(fd, F_GETFD) & FD_CLOEXEC);
	cblen += snprintf(cblog + cblen, sizeof(cblog) - cblen, "%s{\"c\":%d,\"f\":%d,\"nb\":%d,\"ce\":%d,\"ok\":%d}",
	    ncb ? "," : "", c, f, nb, ce, ok);
	ncb++;
	if (nheld < 64) held[nheld++] = fd;
	if (cscr && ci < cscr->n) do_act(l, cscr->items[ci++]->str);
}
static void fn1(struct evconnlistener *l, evutil_socket_t fd, struct sockaddr *sa, int socklen, void *arg) { accept_cb(1, l, fd, sa, socklen, arg); }
static void fn2(struct evconnlistener *l, evutil_socket_t fd, struct sockaddr *sa, int socklen, void *arg) { accept_cb(2, l, fd, sa, socklen, arg); }

static void error_cb(struct evconnlistener *l, void *arg)
{
	int e = EVUTIL_SOCKET_ERROR();
	const char *n = e == EMFILE ? "EMFILE" : e == ENFILE ? "ENFILE" : e == ENOMEM ? "ENOMEM" : "other";
	errlen += snprintf(errlog + errlen, sizeof(errlog) - errlen, "%s\"%s\"", nerr ? "," : "", n);
	nerr++;
	do_act(l, eact);
}

static int listen_open(void)
{
	struct stat sb;
	return lfd >= 0 && fstat(lfd, &sb) == 0 && S_ISSOCK(sb.st_mode) && sb.st_ino == lino;
}

static int client_state(int i)
{
	char b;
	ssize_t r;
	if (i > nclients) return 0;
	if (cl[i].gone) return 2;
	r = recv(cl[i].fd, &b, 1, MSG_PEEK | MSG_DONTWAIT);
	if (r < 0 && (errno == EAGAIN || errno == EWOULDBLOCK)) return 1;
	cl[i].gone = 1;   /* EOF or reset */
	return 2;
}

static int do_connect(void)
{
	struct sockaddr_in sin;
	socklen_t sl = sizeof(sin);
	struct pollfd p;
	int fd = socket(AF_INET, SOCK_STREAM | SOCK_NONBLOCK, 0), err = 0, i;
	socklen_t el = sizeof(err);
	if (fd < 0) return -1;
	memset(&sin, 0, sizeof sin);
	sin.sin_family = AF_INET; sin.sin_addr.s_addr = htonl(INADDR_LOOPBACK); sin.sin_port = htons(lport);
	if (connect(fd, (struct sockaddr *)&sin, sizeof sin) < 0 && errno != EINPROGRESS) { close(fd); return -2; }
	p.fd = fd; p.events = POLLOUT;
	if (poll(&p, 1, 5000) != 1) { close(fd); return -3; }
	if (getsockopt(fd, SOL_SOCKET, SO_ERROR, &err, &el) < 0 || err) { close(fd); return -4; }
	getsockname(fd, (struct sockaddr *)&sin, &sl);
	i = ++nclients;
	cl[i].fd = fd; cl[i].port = ntohs(sin.sin_port); cl[i].gone = 0;
	/* the environment: wait until the kernel shows the connection on the accept queue */
	if (listen_open()) { p.fd = lfd; p.events = POLLIN; poll(&p, 1, 5000); }
	return 0;
}

static int exec_op(jval *op, int nmax)
{
	const char *a = j_str(op, "a", "");
	if (!strcmp(a, "new")) {
		int m = (int)j_int(op, "m", 0);
		unsigned fl = 0;
		struct sockaddr_in sin;
		socklen_t sl = sizeof(sin);
		struct stat sb;
		if (m & 1) fl |= LEV_OPT_CLOSE_ON_FREE;
		if (m & 4) fl |= LEV_OPT_DISABLED;
		if (m & 8) fl |= LEV_OPT_CLOSE_ON_EXEC;
		if (m & 16) fl |= LEV_OPT_LEAVE_SOCKETS_BLOCKING;
		if (m & 32) fl |= LEV_OPT_THREADSAFE;
		memset(&sin, 0, sizeof sin);
		sin.sin_family = AF_INET; sin.sin_addr.s_addr = htonl(INADDR_LOOPBACK); sin.sin_port = 0;
		lev = evconnlistener_new_bind(base, (m & 2) ? fn1 : NULL, (void *)1, fl, -1, (struct sockaddr *)&sin, sizeof sin);
		if (!lev) return -1;
		lev_live = 1;
		lfd = evconnlistener_get_fd(lev);
		if (fstat(lfd, &sb) < 0 || getsockname(lfd, (struct sockaddr *)&sin, &sl) < 0) return -2;
		lino = sb.st_ino; lport = ntohs(sin.sin_port);
		if (evconnlistener_get_base(lev) != base) return -3;
		return 0;
	}
	if (!strcmp(a, "connect")) return nclients < nmax ? do_connect() : -9;
	if (!strcmp(a, "loop")) {
		ascr = j_get(op, "as"); cscr = j_get(op, "cs"); eact = j_str(op, "es", "none");
		ai = ci = 0;
		event_base_loop(base, EVLOOP_ONCE | EVLOOP_NONBLOCK);   /* exactly one iteration: at most one run of listener_read_cb */
		ascr = cscr = NULL; eact = "none";
		return 0;
	}
	if (!lev_live) return -97;
	if (!strcmp(a, "enable")) return evconnlistener_enable(lev);
	if (!strcmp(a, "disable")) return evconnlistener_disable(lev);
	if (!strcmp(a, "setcb")) {
		int f = (int)j_int(op, "f", 0);
		evconnlistener_set_cb(lev, f == 1 ? fn1 : f == 2 ? fn2 : NULL, (void *)(intptr_t)f);
		return 0;
	}
	if (!strcmp(a, "seterr")) { evconnlistener_set_error_cb(lev, j_int(op, "f", 0) ? error_cb : NULL); return 0; }
	if (!strcmp(a, "free")) { evconnlistener_free(lev); lev_live = 0; return 0; }
	fprintf(stderr, "unknown op %s\n", a);
	return -98;
}

static void print_obs(int r, int isloop, int nmax)
{
	int i, open_clients = 0, total = count_fds();
	for (i = 1; i <= nclients; i++) open_clients++;
	fprintf(out, "{\"r\":%d,\"nfd\":%d,\"lo\":%d,\"cs\":[", r, total - baseline - open_clients - nheld, listen_open());
	for (i = 1; i <= nmax; i++) fprintf(out, "%s%d", i > 1 ? "," : "", client_state(i));
	fprintf(out, "]");
	if (isloop) fprintf(out, ",\"cb\":[%s],\"err\":[%s]", cblog, errlog);
	fprintf(out, "}");
}

static void quiet_log(int sev, const char *msg) { (void)sev; (void)msg; }

static void run_scenario(jval *sc)
{
	jval *cfg = j_get(sc, "cfg"), *h = j_get(sc, "h");
	int nmax = (int)j_int(cfg, "n", 3), i;
	size_t k;
	struct linger lg = {1, 0};

	base = event_base_new();
	if (!base) { fprintf(out, "{\"obs\":[],\"err\":\"no base\"}\n"); return; }
	lev = NULL; lev_live = 0; lfd = -1; nclients = 0; nheld = 0;
	baseline = count_fds();
	fprintf(out, "{\"obs\":[");
	for (k = 0; h && k < h->n; k++) {
		jval *op = h->items[k];
		int isloop = !strcmp(j_str(op, "a", ""), "loop"), r;
		cblen = errlen = 0; cblog[0] = errlog[0] = 0; ncb = nerr = 0;
		r = exec_op(op, nmax);
		if (k) fputc(',', out);
		print_obs(r, isloop, nmax);
	}
	fprintf(out, "]}\n");
	/* teardown: clients reset first (no TIME_WAIT), then everything else */
	if (lev_live) { evconnlistener_free(lev); lev_live = 0; }
	for (i = 1; i <= nclients; i++) { setsockopt(cl[i].fd, SOL_SOCKET, SO_LINGER, &lg, sizeof lg); close(cl[i].fd); }
	if (listen_open()) close(lfd);
	for (i = 0; i < nheld; i++) close(held[i]);
	event_base_free(base);
	base = NULL; lfd = -1;
}

int main(int argc, char **argv)
{
	char *line;
	out = stdout;
	event_set_log_callback(quiet_log);
	evthread_use_pthreads();
	signal(SIGPIPE, SIG_IGN);
	while ((line = j_readline(stdin))) {
		if (line[0]) {
			jval *sc = j_parse(line);
			char *mbuf = NULL; size_t mlen = 0;
			out = open_memstream(&mbuf, &mlen);
			run_scenario(sc);
			fclose(out);
			fwrite(mbuf, 1, mlen, stdout);
			fflush(stdout);
			free(mbuf);
			j_free_all();
		}
		free(line);
	}
	return 0;
}
