/* Driver for specs/Rpc.tla (property C43).
 * stdin: one scenario per line {"cfg":{"contents":[...]},"h":[step,...]}.
 * One event_base holds an evhttp server + evrpc_base (RPCs Message and
 * NeverReply from the generated test types, a raw junk handler on the path of
 * an RPC "Junk", nothing for "NoSuch") and an evrpc_pool with one connection.
 * Every step performs the op and then runs the loop (EVLOOP_NONBLOCK, virtual
 * clock) until nothing more happens; it prints the completion callbacks that
 * ran (call, status, reply fields), and the cumulative completion / handler
 * invocation counts.  No oracle logic here.
 */
#include <event2/event.h>
#include <event2/event_compat.h>
#include <event2/http.h>
#include <event2/http_struct.h>
#include <event2/buffer.h>
#include <event2/rpc.h>
#include <event2/rpc_struct.h>
#include <event2/tag.h>
#include <event2/util.h>
#include "evrpc-internal.h"
#include <sys/socket.h>
#include <netinet/in.h>
#include <unistd.h>
#include <signal.h>
#include "regress.gen.h"
#include "mjson.h"
#include "vclock.h"

EVRPC_HEADER(Message, msg, kill)
EVRPC_HEADER(NeverReply, msg, kill)
EVRPC_HEADER(Junk, msg, kill)
EVRPC_HEADER(NoSuch, msg, kill)
EVRPC_GENERATE(Message, msg, kill)
EVRPC_GENERATE(NeverReply, msg, kill)
EVRPC_GENERATE(Junk, msg, kill)
EVRPC_GENERATE(NoSuch, msg, kill)

#define MAXCALL 8
struct pause_rec { void *vbase; void *ctx; int active; const char *hook; };
struct call_rec {
	int used, comp, hinv;
	struct msg *req; struct kill *rep;
	const char *co, *ci, *si, *so;
	struct pause_rec pc, ps;            /* client-side / server-side pause */
	EVRPC_STRUCT(NeverReply) *saved;
};
static struct call_rec calls[MAXCALL + 1];
static struct event_base *base;
static struct evhttp *http;
static struct evrpc_base *rbase;
static struct evrpc_pool *pool;
static struct evhttp_connection *rawcon;
static int port, hooks_on, rawh, rawcode, tearing, deadfd = -1, setup_failed;
static FILE *out;
static char donelog[8192];
static size_t donelen;
static int ndone;

static void hexcat(char *dst, size_t cap, const ev_uint8_t *p, size_t n)
{
	size_t l = strlen(dst), i;
	for (i = 0; i < n && l + 3 < cap; i++) l += snprintf(dst + l, cap - l, "%02x", p[i]);
}

/* the reply is a function of everything in the request (so that request marshalling is checked too) */
static void fill_reply(struct msg *m, struct kill *r)
{
	char w[256] = "", a[512] = "", *s = NULL, *from = NULL, *to = NULL;
	struct kill *att = NULL;
	int i, j;
	EVTAG_GET(m, from_name, &from);
	EVTAG_GET(m, to_name, &to);
	if (EVTAG_ARRAY_LEN(m, run) > 0) {
		struct run *r0 = NULL;
		EVTAG_ARRAY_GET(m, run, 0, &r0);
		EVTAG_GET(r0, how, &s);
		snprintf(w, sizeof w, "%s", s ? s : "?");
	} else snprintf(w, sizeof w, "norun");
	if (EVTAG_HAS(m, attack) && EVTAG_GET(m, attack, &att) == 0 && att) {
		char *aw = NULL;
		EVTAG_GET(att, weapon, &aw);
		snprintf(w + strlen(w), sizeof w - strlen(w), "|%s", aw ? aw : "?");
	}
	snprintf(a, sizeof a, "%s|%s|", to ? to : "?", from ? from : "?");
	for (i = 0; i < (int)EVTAG_ARRAY_LEN(m, run); i++) {
		struct run *ri = NULL;
		ev_uint8_t *b = NULL; ev_uint32_t bl = 0; ev_uint64_t big = 0;
		EVTAG_ARRAY_GET(m, run, i, &ri);
		if (EVTAG_HAS(ri, some_bytes) && EVTAG_GET_WITH_LEN(ri, some_bytes, &b, &bl) == 0) hexcat(a, sizeof a, b, bl);
		strcat(a, "/");
		if (EVTAG_GET(ri, fixed_bytes, &b) == 0) hexcat(a, sizeof a, b, 24);
		strcat(a, ";");
		for (j = 0; j < (int)EVTAG_ARRAY_LEN(ri, other_numbers); j++) {
			ev_uint32_t v = 0;
			EVTAG_ARRAY_GET(ri, other_numbers, j, &v);
			EVTAG_ARRAY_ADD_VALUE(r, how_often, v);
		}
		if (EVTAG_HAS(ri, large_number) && EVTAG_GET(ri, large_number, &big) == 0) {
			EVTAG_ARRAY_ADD_VALUE(r, how_often, (ev_uint32_t)(big & 0xffffffffu));
			EVTAG_ARRAY_ADD_VALUE(r, how_often, (ev_uint32_t)(big >> 32));
		}
		EVTAG_ARRAY_ADD_VALUE(r, how_often, (ev_uint32_t)EVTAG_ARRAY_LEN(ri, notes));
	}
	EVTAG_ASSIGN(r, weapon, w);
	EVTAG_ASSIGN(r, action, a);
}

static int call_of(struct msg *m)
{
	char *from = NULL;
	int k = 0;
	if (EVTAG_GET(m, from_name, &from) == 0 && from && sscanf(from, "call-%d", &k) == 1 && k >= 1 && k <= MAXCALL) return k;
	return 0;   /* raw request */
}

static void MessageCb(EVRPC_STRUCT(Message) *rpc, void *arg)
{
	int k = call_of(rpc->request);
	if (k) calls[k].hinv++; else rawh++;
	fill_reply(rpc->request, rpc->reply);
	EVRPC_REQUEST_DONE(rpc);
}
static void NeverReplyCb(EVRPC_STRUCT(NeverReply) *rpc, void *arg)
{
	int k = call_of(rpc->request);
	if (k) { calls[k].hinv++; calls[k].saved = rpc; } else { rawh++; fill_reply(rpc->request, rpc->reply); EVRPC_REQUEST_DONE(rpc); }
}
static void junk_cb(struct evhttp_request *req, void *arg)
{
	struct evbuffer *b = evbuffer_new();
	evbuffer_add(b, "\xff\xff\xff\xff\x7fjunk-not-a-tagged-struct", 28);
	evhttp_send_reply(req, 200, "OK", b);
	evbuffer_free(b);
}

/* ---- hooks */
static int hook_result(int k, const char *a, struct pause_rec *p, void *vbase, void *ctx, const char *hook)
{
	if (!a || !strcmp(a, "cont")) return EVRPC_CONTINUE;
	if (!strcmp(a, "term")) return EVRPC_TERMINATE;
	p->vbase = vbase; p->ctx = ctx; p->active = 1; p->hook = hook;
	return EVRPC_PAUSE;
}
static int hook_co(void *ctx, struct evhttp_request *req, struct evbuffer *buf, void *arg)
{
	int k = (int)(intptr_t)((struct evrpc_request_wrapper *)ctx)->cb_arg;
	char v[16];
	snprintf(v, sizeof v, "%d", k);
	evhttp_add_header(req->output_headers, "X-Call", v);
	return hook_result(k, calls[k].co, &calls[k].pc, pool, ctx, "co");
}
static int hook_ci(void *ctx, struct evhttp_request *req, struct evbuffer *buf, void *arg)
{
	int k = (int)(intptr_t)((struct evrpc_request_wrapper *)ctx)->cb_arg;
	return hook_result(k, calls[k].ci, &calls[k].pc, pool, ctx, "ci");
}
static int srv_call(struct evhttp_request *req)
{
	const char *v = evhttp_find_header(req->input_headers, "X-Call");
	int k = v ? atoi(v) : 0;
	return (k >= 1 && k <= MAXCALL && calls[k].used) ? k : 0;
}
static int hook_si(void *ctx, struct evhttp_request *req, struct evbuffer *buf, void *arg)
{
	int k = srv_call(req);
	if (!k) return EVRPC_CONTINUE;
	return hook_result(k, calls[k].si, &calls[k].ps, rbase, ctx, "si");
}
static int hook_so(void *ctx, struct evhttp_request *req, struct evbuffer *buf, void *arg)
{
	int k = srv_call(req);
	if (!k) return EVRPC_CONTINUE;
	return hook_result(k, calls[k].so, &calls[k].ps, rbase, ctx, "so");
}

/* ---- client completion */
static void call_done(struct evrpc_status *status, struct msg *m, struct kill *r, void *arg)
{
	int k = (int)(intptr_t)arg, i;
	char *w = NULL, *a = NULL;
	FILE *f;
	char *mb = NULL; size_t ml = 0;
	calls[k].comp++;
	if (tearing) return;
	f = open_memstream(&mb, &ml);
	fprintf(f, "%s{\"k\":%d,\"e\":%d,\"st\":%d", ndone ? "," : "", k, status->error != EVRPC_STATUS_ERR_NONE, status->error);
	if (status->error == EVRPC_STATUS_ERR_NONE) {
		if (EVTAG_GET(r, weapon, &w) != 0) w = NULL;
		if (EVTAG_GET(r, action, &a) != 0) a = NULL;
		fprintf(f, ",\"w\":"); j_put_str(f, w ? w : "<unset>", strlen(w ? w : "<unset>"));
		fprintf(f, ",\"a\":"); j_put_str(f, a ? a : "<unset>", strlen(a ? a : "<unset>"));
		fprintf(f, ",\"n\":[");
		for (i = 0; i < (int)EVTAG_ARRAY_LEN(r, how_often); i++) {
			ev_uint32_t v = 0;
			EVTAG_ARRAY_GET(r, how_often, i, &v);
			fprintf(f, "%s%u", i ? "," : "", v);
		}
		fprintf(f, "]");
	}
	fprintf(f, "}");
	fclose(f);
	if (donelen + ml < sizeof donelog) { memcpy(donelog + donelen, mb, ml + 1); donelen += ml; }
	free(mb);
	ndone++;
}

static void run_loop(void)
{
	int i;
	for (i = 0; i < 4; i++) event_base_loop(base, EVLOOP_NONBLOCK);
}

static int unhex(const char *h, ev_uint8_t *o, int cap)
{
	int n = 0;
	unsigned v;
	while (h[0] && h[1] && n < cap && sscanf(h, "%2x", &v) == 1) { o[n++] = (ev_uint8_t)v; h += 2; }
	return n;
}

static struct msg *build_msg(const char *from, jval *c)
{
	struct msg *m = msg_new();
	jval *nums = j_get(c, "nums");
	const char *att = j_str(c, "att", ""), *how = j_str(c, "how", "h");
	int nrun = (int)j_int(c, "nrun", 1), i;
	size_t j;
	EVTAG_ASSIGN(m, from_name, from);
	EVTAG_ASSIGN(m, to_name, j_str(c, "to", "t"));
	if (att[0]) {
		struct kill *kk = kill_new();
		EVTAG_ASSIGN(kk, weapon, att);
		EVTAG_ASSIGN(kk, action, "a");
		for (j = 0; nums && j < nums->n; j++) EVTAG_ARRAY_ADD_VALUE(kk, how_often, (ev_uint32_t)nums->items[j]->i);
		EVTAG_ASSIGN(m, attack, kk);
		kill_free(kk);
	}
	for (i = 0; i < nrun; i++) {
		struct run *r = EVTAG_ARRAY_ADD(m, run);
		char hw[128];
		ev_uint8_t b[64], fixed[24];
		int bl = unhex(j_str(c, "bytes", ""), b, sizeof b), x;
		snprintf(hw, sizeof hw, "%s%d", how, i);
		EVTAG_ASSIGN(r, how, i == 0 ? how : hw);
		if (bl > 0 || j_int(c, "emptybytes", 0)) EVTAG_ASSIGN_WITH_LEN(r, some_bytes, b, bl);
		for (x = 0; x < 24; x++) fixed[x] = (ev_uint8_t)(bl ? b[x % bl] + x + i : x + i);
		EVTAG_ASSIGN(r, fixed_bytes, fixed);
		EVTAG_ARRAY_ADD_VALUE(r, notes, j_str(c, "to", "t"));
		if (i == 1) EVTAG_ARRAY_ADD_VALUE(r, notes, how);
		if (j_get(c, "big")) EVTAG_ASSIGN(r, large_number, (ev_uint64_t)j_int(c, "big", 0) + (ev_uint64_t)i);
		for (j = 0; nums && j < nums->n; j++) EVTAG_ARRAY_ADD_VALUE(r, other_numbers, (ev_uint32_t)nums->items[j]->i + (ev_uint32_t)i);
	}
	return m;
}

static void raw_done(struct evhttp_request *req, void *arg)
{
	rawcode = req ? evhttp_request_get_response_code(req) : -1;
}

static int exec_op(jval *op, jval *cfg)
{
	const char *a = j_str(op, "a", "");
	if (!strcmp(a, "init")) {
		int m = (int)j_int(op, "m", 0);
		struct evhttp_bound_socket *bs;
		struct sockaddr_in sin;
		socklen_t sl = sizeof sin;
		struct evhttp_connection *evcon;
		int cport;
		int tries;
		http = evhttp_new(base);
		/* port 0 + SO_REUSEADDR (set by evhttp) can hand the same port to two processes that have not called
		 * listen() yet; the loser's listen() fails with EADDRINUSE: an environment race, retried here */
		for (tries = 0, bs = NULL; !bs && tries < 50; tries++)
			bs = evhttp_bind_socket_with_handle(http, "127.0.0.1", 0);
		if (!bs) { setup_failed = 1; return -1; }
		getsockname(evhttp_bound_socket_get_fd(bs), (struct sockaddr *)&sin, &sl);
		port = ntohs(sin.sin_port);
		rbase = evrpc_init(http);
		EVRPC_REGISTER(rbase, Message, msg, kill, MessageCb, NULL);
		EVRPC_REGISTER(rbase, NeverReply, msg, kill, NeverReplyCb, NULL);
		evhttp_set_cb(http, "/.rpc.Junk", junk_cb, NULL);
		cport = port;
		if (m & 2) {   /* a port nobody listens on: bound but not listening => connection refused */
			int s = socket(AF_INET, SOCK_STREAM, 0);
			memset(&sin, 0, sizeof sin); sin.sin_family = AF_INET; sin.sin_addr.s_addr = htonl(INADDR_LOOPBACK);
			bind(s, (struct sockaddr *)&sin, sizeof sin);
			sl = sizeof sin; getsockname(s, (struct sockaddr *)&sin, &sl);
			cport = ntohs(sin.sin_port);
			deadfd = s;   /* stays bound (never listening) until teardown so that nobody else can get the port */
		}
		pool = evrpc_pool_new(base);
		evcon = evhttp_connection_base_new(NULL, NULL, "127.0.0.1", cport);   /* the pool supplies the base */
		evrpc_pool_add_connection(pool, evcon);
		if (m & 1) evrpc_pool_set_timeout(pool, 5);
		hooks_on = !!(m & 4);
		if (hooks_on) {
			evrpc_add_hook(pool, EVRPC_OUTPUT, hook_co, NULL);
			evrpc_add_hook(pool, EVRPC_INPUT, hook_ci, NULL);
			evrpc_add_hook(rbase, EVRPC_INPUT, hook_si, NULL);
			evrpc_add_hook(rbase, EVRPC_OUTPUT, hook_so, NULL);
		}
		return 0;
	}
	if (!strcmp(a, "call")) {
		int k = (int)j_int(op, "k", 0), c = (int)j_int(op, "c", 1);
		const char *kind = j_str(op, "kind", "msg");
		jval *hk = j_get(op, "hk"), *contents = j_get(cfg, "contents");
		char from[32];
		struct call_rec *cr = &calls[k];
		snprintf(from, sizeof from, "call-%d", k);
		cr->used = 1;
		cr->co = j_str(hk, "co", "cont"); cr->ci = j_str(hk, "ci", "cont");
		cr->si = j_str(hk, "si", "cont"); cr->so = j_str(hk, "so", "cont");
		cr->req = build_msg(from, contents->items[c - 1]);
		cr->rep = kill_new();
		if (!strcmp(kind, "msg")) return evrpc_send_request_Message(pool, cr->req, cr->rep, call_done, (void *)(intptr_t)k);
		if (!strcmp(kind, "never")) return evrpc_send_request_NeverReply(pool, cr->req, cr->rep, call_done, (void *)(intptr_t)k);
		if (!strcmp(kind, "junk")) return evrpc_send_request_Junk(pool, cr->req, cr->rep, call_done, (void *)(intptr_t)k);
		return evrpc_send_request_NoSuch(pool, cr->req, cr->rep, call_done, (void *)(intptr_t)k);
	}
	if (!strcmp(a, "resume")) {
		int k = (int)j_int(op, "k", 0);
		struct pause_rec *p = !strcmp(j_str(op, "side", "c"), "c") ? &calls[k].pc : &calls[k].ps;
		const char *act;
		if (!p->active) return -5;
		act = !strcmp(p->hook, "co") ? calls[k].co : !strcmp(p->hook, "ci") ? calls[k].ci : !strcmp(p->hook, "si") ? calls[k].si : calls[k].so;
		p->active = 0;
		return evrpc_resume_request(p->vbase, p->ctx, !strcmp(act, "pcont") ? EVRPC_CONTINUE : EVRPC_TERMINATE);
	}
	if (!strcmp(a, "adv")) { vt_now_ns += j_int(op, "t", 0) * 1000000000LL; return 0; }
	if (!strcmp(a, "late")) {
		int k = (int)j_int(op, "k", 0);
		EVRPC_STRUCT(NeverReply) *rpc = calls[k].saved;
		if (!rpc) return -6;
		calls[k].saved = NULL;
		fill_reply(rpc->request, rpc->reply);
		EVRPC_REQUEST_DONE(rpc);
		return 0;
	}
	if (!strcmp(a, "raw")) {
		const char *r = j_str(op, "r", "junk");
		struct evhttp_request *req = evhttp_request_new(raw_done, NULL);
		struct evbuffer *ob = evhttp_request_get_output_buffer(req);
		jval *contents = j_get(cfg, "contents");
		rawcode = -2;
		if (!rawcon) rawcon = evhttp_connection_base_new(base, NULL, "127.0.0.1", port);
		evhttp_add_header(evhttp_request_get_output_headers(req), "Host", "localhost");
		if (!strcmp(r, "valid") || !strcmp(r, "trunc") || !strcmp(r, "get")) {
			struct msg *m = build_msg("raw", contents->items[0]);
			if (strcmp(r, "get")) msg_marshal(ob, m);
			msg_free(m);
			if (!strcmp(r, "trunc")) {
				size_t n = evbuffer_get_length(ob);
				struct evbuffer *t = evbuffer_new();
				evbuffer_remove_buffer(ob, t, n / 2);
				evbuffer_drain(ob, n);
				evbuffer_add_buffer(ob, t);
				evbuffer_free(t);
			}
		} else if (!strcmp(r, "junk")) evbuffer_add(ob, "\xff\xfe\xfdgarbage\x00\x01", 12);
		else if (!strcmp(r, "wrongtype")) {
			struct kill *kk = kill_new();
			EVTAG_ASSIGN(kk, weapon, "w"); EVTAG_ASSIGN(kk, action, "a");
			kill_marshal(ob, kk);
			kill_free(kk);
		} else if (!strcmp(r, "incomplete")) evtag_marshal_string(ob, 2, "only-to-name");
		/* "empty": POST without body */
		return evhttp_make_request(rawcon, req, !strcmp(r, "get") ? EVHTTP_REQ_GET : EVHTTP_REQ_POST, "/.rpc.Message");
	}
	fprintf(stderr, "unknown op %s\n", a);
	return -98;
}

static void quiet_log(int sev, const char *msg) { (void)sev; (void)msg; }

static void run_scenario(jval *sc)
{
	jval *cfg = j_get(sc, "cfg"), *h = j_get(sc, "h");
	int nc = (int)j_int(cfg, "nc", 3), k;
	size_t i;
	memset(calls, 0, sizeof calls);
	vt_now_ns = 1000LL * 1000000000LL;
	rawh = 0; tearing = 0; rawcon = NULL; pool = NULL; rbase = NULL; http = NULL; setup_failed = 0;
	base = event_init();   /* also the library's "current base": a pool connection must be created without a base
	                        * (evhttp_connection_set_base asserts evcon->base == NULL) and then needs the current base */
	fprintf(out, "{\"obs\":[");
	for (i = 0; h && i < h->n; i++) {
		jval *op = h->items[i];
		int r;
		donelen = 0; donelog[0] = 0; ndone = 0;
		r = exec_op(op, cfg);
		if (setup_failed) break;
		run_loop();
		fprintf(out, "%s{\"r\":%d,\"done\":[%s],\"comp\":[", i ? "," : "", r, donelog);
		for (k = 1; k <= nc; k++) fprintf(out, "%s%d", k > 1 ? "," : "", calls[k].comp);
		fprintf(out, "],\"hinv\":[");
		for (k = 1; k <= nc; k++) fprintf(out, "%s%d", k > 1 ? "," : "", calls[k].hinv);
		fprintf(out, "],\"rawh\":%d", rawh);
		if (!strcmp(j_str(op, "a", ""), "raw")) fprintf(out, ",\"code\":%d", rawcode);
		fprintf(out, "}");
	}
	fprintf(out, "]%s}\n", setup_failed ? ",\"err\":\"setup failed (bind)\"" : "");
	/* teardown */
	tearing = 1;
	if (pool) {
		for (k = 1; k <= MAXCALL; k++) {
			if (calls[k].pc.active) { calls[k].pc.active = 0; evrpc_resume_request(calls[k].pc.vbase, calls[k].pc.ctx, EVRPC_TERMINATE); }
			if (calls[k].ps.active) { calls[k].ps.active = 0; evrpc_resume_request(calls[k].ps.vbase, calls[k].ps.ctx, EVRPC_TERMINATE); }
		}
		run_loop();
		for (k = 1; k <= MAXCALL; k++) {
			if (calls[k].ps.active) { calls[k].ps.active = 0; evrpc_resume_request(calls[k].ps.vbase, calls[k].ps.ctx, EVRPC_TERMINATE); }
			if (calls[k].saved) { EVRPC_STRUCT(NeverReply) *rpc = calls[k].saved; calls[k].saved = NULL; fill_reply(rpc->request, rpc->reply); EVRPC_REQUEST_DONE(rpc); }
		}
		run_loop();
		for (k = 1; k <= MAXCALL; k++) {
			if (calls[k].pc.active) { calls[k].pc.active = 0; evrpc_resume_request(calls[k].pc.vbase, calls[k].pc.ctx, EVRPC_TERMINATE); }
			if (calls[k].ps.active) { calls[k].ps.active = 0; evrpc_resume_request(calls[k].ps.vbase, calls[k].ps.ctx, EVRPC_TERMINATE); }
		}
		run_loop();
		if (rawcon) evhttp_connection_free(rawcon);
		evrpc_pool_free(pool);
		EVRPC_UNREGISTER(rbase, Message);
		EVRPC_UNREGISTER(rbase, NeverReply);
		evrpc_free(rbase);
		evhttp_free(http);
	} else if (http) evhttp_free(http);
	event_base_free(base);
	if (deadfd >= 0) { close(deadfd); deadfd = -1; }
	for (k = 1; k <= MAXCALL; k++) {
		if (calls[k].req) msg_free(calls[k].req);
		if (calls[k].rep) kill_free(calls[k].rep);
	}
}

int main(int argc, char **argv)
{
	char *line;
	out = stdout;
	event_set_log_callback(quiet_log);
	signal(SIGPIPE, SIG_IGN);
	while ((line = j_readline(stdin))) {
		if (line[0]) {
			jval *sc = j_parse(line);
			char *mbuf = NULL; size_t mlen = 0;
			out = open_memstream(&mbuf, &mlen);
			run_scenario(sc);
			fclose(out);
			fwrite(mbuf, 1, mlen, stdout);
			fflush(stdout);
			free(mbuf);
			j_free_all();
		}
		free(line);
	}
	return 0;
}
