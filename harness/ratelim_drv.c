/* Driver for specs/RateLimit_Trace.tla (C22, binding V).
 * Socketpair bufferevents with an always-ready peer under the virtual clock;
 * every scenario op is performed on the real library and an ndjson event log
 * is produced: the ops themselves, one "io" event per read/write operation
 * (bytes moved by that operation, from evbuffer callbacks on the bufferevent's
 * input/output buffers) and an "obs" record after every op (bucket levels via
 * bufferevent_get_read/write_limit, per-operation budget via
 * bufferevent_get_max_to_read/write, group bucket levels, group suspended flags).
 * No oracle logic here.
 *
 * stdin : one scenario per line {"cfg":{"tickms":100,"offms":30,"nb":2,"rfeed":1},"h":[op,...]}  (rfeed 0: peer sends nothing)
 *   ops: {"a":"setcfg","b":1,"rr":..,"rb":..,"wr":..,"wb":..}   (bytes per tick; rr=0 -> NULL)
 *        {"a":"setmax","b":1,"d":0|1,"m":bytes}
 *        {"a":"group","rr","rb","wr","wb","ms"}  {"a":"gsetcfg","rr","rb","wr","wb"}  {"a":"join","b"}  {"a":"leave","b"}
 *        {"a":"dec","b","d","k"}   {"a":"adv","ms":N}   {"a":"loop"}
 * stdout: one line per scenario {"ev":[event,...]}
 */
#include <event2/event.h>
#include <event2/bufferevent.h>
#include <event2/buffer.h>
#include <event2/util.h>
#include <sys/socket.h>
#include <unistd.h>
#include <fcntl.h>
#include <errno.h>
#include "bufferevent-internal.h"
#include "mjson.h"
#include "vclock.h"

#define NB 3
static struct event_base *base;
static struct bufferevent *bev[NB + 1];
static int peer[NB + 1];
static struct ev_token_bucket_cfg *cfgs[64]; static int ncfgs;
static struct bufferevent_rate_limit_group *grp;
static int nb, tickms, rfeed;
static int64_t t0_ms;
static FILE *out;
static int first_ev;

static long curtick(void) { return (long)(((vt_now_ns + vt_wall_offset_ns) / 1000000LL - t0_ms) / tickms); }
static void sep(void) { if (!first_ev) fputc(',', out); first_ev = 0; }

static void in_cb(struct evbuffer *b, const struct evbuffer_cb_info *info, void *arg)
{
	(void)b;
	if (info->n_added) { sep(); fprintf(out, "{\"e\":\"io\",\"b\":%d,\"d\":0,\"n\":%zu,\"t\":%ld}", (int)(intptr_t)arg, info->n_added, curtick()); }
}
static void out_cb(struct evbuffer *b, const struct evbuffer_cb_info *info, void *arg)
{
	(void)b;
	if (info->n_deleted) { sep(); fprintf(out, "{\"e\":\"io\",\"b\":%d,\"d\":1,\"n\":%zu,\"t\":%ld}", (int)(intptr_t)arg, info->n_deleted, curtick()); }
}
static void rd_cb(struct bufferevent *b, void *arg) { (void)arg; evbuffer_drain(bufferevent_get_input(b), evbuffer_get_length(bufferevent_get_input(b))); }
static void ev_cb(struct bufferevent *b, short what, void *arg) { (void)b; (void)what; (void)arg; }

static char junk[1 << 16];
/* keep the peer always ready: plenty of bytes to read, room to write, output buffer never empty */
static void feed(void)
{
	for (int i = 1; i <= nb; i++) {
		while (rfeed && write(peer[i], junk, sizeof(junk)) > 0) ;
		struct evbuffer *o = bufferevent_get_output(bev[i]);
		if (evbuffer_get_length(o) < (1 << 18)) {
			/* adding data must not be logged as I/O: only deletions are (out_cb) */
			evbuffer_add(o, junk, sizeof(junk)); evbuffer_add(o, junk, sizeof(junk));
			evbuffer_add(o, junk, sizeof(junk)); evbuffer_add(o, junk, sizeof(junk));
		}
	}
}
/* the peer consumes what the bufferevents wrote (uses a second descriptor: the peer end is full duplex) */
static void drain_peer(void)
{
	static char sink[1 << 16];
	for (int i = 1; i <= nb; i++)
		while (recv(peer[i], sink, sizeof(sink), MSG_DONTWAIT) > 0) ;
}

static void obs(int after_loop)
{
	sep();
	fprintf(out, "{\"e\":\"obs\",\"t\":%ld,\"al\":%d,\"lv\":[", curtick(), after_loop);
	for (int i = 1; i <= nb; i++) {
		int has = bufferevent_get_token_bucket_cfg(bev[i]) != NULL;
		fprintf(out, "%s%lld,%lld", i > 1 ? "," : "", has ? (long long)bufferevent_get_read_limit(bev[i]) : 0LL,
		    has ? (long long)bufferevent_get_write_limit(bev[i]) : 0LL);
	}
	fprintf(out, "],\"mx\":[");
	for (int i = 1; i <= nb; i++)
		fprintf(out, "%s%lld,%lld", i > 1 ? "," : "", (long long)bufferevent_get_max_to_read(bev[i]), (long long)bufferevent_get_max_to_write(bev[i]));
	if (grp)
		fprintf(out, "],\"gl\":[%lld,%lld],\"gs\":[%d,%d]}", (long long)bufferevent_rate_limit_group_get_read_limit(grp),
		    (long long)bufferevent_rate_limit_group_get_write_limit(grp), (int)grp->read_suspended, (int)grp->write_suspended);
	else
		fprintf(out, "],\"gl\":[0,0],\"gs\":[0,0]}");
}

static void run(jval *sc)
{
	jval *c = j_get(sc, "cfg"), *h = j_get(sc, "h");
	nb = (int)j_int(c, "nb", 2); tickms = (int)j_int(c, "tickms", 100);
	if (nb > NB) nb = NB;
	rfeed = (int)j_int(c, "rfeed", 1);	/* 0: the peer sends nothing (write traffic only) */
	/* start of tick 0: a wall-clock instant that is a multiple of the tick length, plus an offset inside the tick */
	int64_t wall_ms = (vt_now_ns + vt_wall_offset_ns) / 1000000LL;
	t0_ms = (wall_ms / tickms + 2) * tickms;
	vt_now_ns += (t0_ms - wall_ms + j_int(c, "offms", 0)) * 1000000LL;
	base = event_base_new();
	grp = NULL; ncfgs = 0;
	for (int i = 1; i <= nb; i++) {
		int sv[2];
		if (socketpair(AF_UNIX, SOCK_STREAM, 0, sv)) { perror("socketpair"); exit(3); }
		evutil_make_socket_nonblocking(sv[0]); evutil_make_socket_nonblocking(sv[1]);
		peer[i] = sv[1];
		bev[i] = bufferevent_socket_new(base, sv[0], BEV_OPT_CLOSE_ON_FREE);
		bufferevent_setcb(bev[i], rd_cb, NULL, ev_cb, NULL);
		evbuffer_add_cb(bufferevent_get_input(bev[i]), in_cb, (void *)(intptr_t)i);
		evbuffer_add_cb(bufferevent_get_output(bev[i]), out_cb, (void *)(intptr_t)i);
	}
	first_ev = 1;
	sep(); fprintf(out, "{\"e\":\"reset\",\"nb\":%d,\"rf\":%d,\"t\":0}", nb, rfeed);
	int enabled = 0;
	for (size_t s = 0; h && s < h->n; s++) {
		jval *op = h->items[s];
		const char *a = j_str(op, "a", "");
		int b = (int)j_int(op, "b", 1);
		long t = curtick();
		if (!strcmp(a, "setcfg")) {
			long long rr = j_int(op, "rr", 0), rb = j_int(op, "rb", 0), wr = j_int(op, "wr", 0), wb = j_int(op, "wb", 0);
			struct timeval tv = { tickms / 1000, (tickms % 1000) * 1000 };
			struct ev_token_bucket_cfg *cf = rr ? ev_token_bucket_cfg_new(rr, rb, wr, wb, &tv) : NULL;
			if (cf) cfgs[ncfgs++] = cf;
			bufferevent_set_rate_limit(bev[b], cf);
			sep(); fprintf(out, "{\"e\":\"setcfg\",\"b\":%d,\"rr\":%lld,\"rb\":%lld,\"wr\":%lld,\"wb\":%lld,\"t\":%ld}", b, rr, rb, wr, wb, t);
		} else if (!strcmp(a, "setmax")) {
			int d = (int)j_int(op, "d", 0); long long m = j_int(op, "m", 0);
			if (d) bufferevent_set_max_single_write(bev[b], m); else bufferevent_set_max_single_read(bev[b], m);
			sep(); fprintf(out, "{\"e\":\"setmax\",\"b\":%d,\"d\":%d,\"m\":%lld,\"t\":%ld}", b, d, m, t);
		} else if (!strcmp(a, "group")) {
			long long rr = j_int(op, "rr", 0), rb = j_int(op, "rb", 0), wr = j_int(op, "wr", 0), wb = j_int(op, "wb", 0), ms = j_int(op, "ms", 64);
			struct timeval tv = { tickms / 1000, (tickms % 1000) * 1000 };
			struct ev_token_bucket_cfg *cf = ev_token_bucket_cfg_new(rr, rb, wr, wb, &tv);
			cfgs[ncfgs++] = cf;
			grp = bufferevent_rate_limit_group_new(base, cf);
			bufferevent_rate_limit_group_set_min_share(grp, ms);
			sep(); fprintf(out, "{\"e\":\"group\",\"rr\":%lld,\"rb\":%lld,\"wr\":%lld,\"wb\":%lld,\"ms\":%lld,\"t\":%ld}", rr, rb, wr, wb, ms, t);
		} else if (!strcmp(a, "gsetcfg")) {
			long long rr = j_int(op, "rr", 0), rb = j_int(op, "rb", 0), wr = j_int(op, "wr", 0), wb = j_int(op, "wb", 0);
			struct timeval tv = { tickms / 1000, (tickms % 1000) * 1000 };
			struct ev_token_bucket_cfg *cf = ev_token_bucket_cfg_new(rr, rb, wr, wb, &tv);
			cfgs[ncfgs++] = cf;
			bufferevent_rate_limit_group_set_cfg(grp, cf);
			sep(); fprintf(out, "{\"e\":\"gsetcfg\",\"rr\":%lld,\"rb\":%lld,\"wr\":%lld,\"wb\":%lld,\"t\":%ld}", rr, rb, wr, wb, t);
		} else if (!strcmp(a, "join")) {
			bufferevent_add_to_rate_limit_group(bev[b], grp);
			sep(); fprintf(out, "{\"e\":\"join\",\"b\":%d,\"t\":%ld}", b, t);
		} else if (!strcmp(a, "leave")) {
			bufferevent_remove_from_rate_limit_group(bev[b]);
			sep(); fprintf(out, "{\"e\":\"leave\",\"b\":%d,\"t\":%ld}", b, t);
		} else if (!strcmp(a, "dec")) {
			int d = (int)j_int(op, "d", 0); long long k = j_int(op, "k", 0);
			if (d) bufferevent_decrement_write_limit(bev[b], k); else bufferevent_decrement_read_limit(bev[b], k);
			sep(); fprintf(out, "{\"e\":\"dec\",\"b\":%d,\"d\":%d,\"k\":%lld,\"t\":%ld}", b, d, k, t);
		} else if (!strcmp(a, "adv")) {
			vt_now_ns += j_int(op, "ms", 0) * 1000000LL;
		} else if (!strcmp(a, "loop")) {
			if (!enabled) { for (int i = 1; i <= nb; i++) bufferevent_enable(bev[i], EV_READ | EV_WRITE); enabled = 1; }
			/* three single iterations (EVLOOP_NONBLOCK alone keeps iterating while callbacks are active) */
			for (int it = 0; it < 3; it++) {
				feed();
				event_base_loop(base, EVLOOP_ONCE | EVLOOP_NONBLOCK);
				drain_peer();
			}
		}
		obs(!strcmp(a, "loop"));
	}
	for (int i = 1; i <= nb; i++) {
		if (grp) bufferevent_remove_from_rate_limit_group(bev[i]);
		bufferevent_free(bev[i]); close(peer[i]);
	}
	event_base_loop(base, EVLOOP_NONBLOCK);
	if (grp) bufferevent_rate_limit_group_free(grp);
	for (int i = 0; i < ncfgs; i++) ev_token_bucket_cfg_free(cfgs[i]);
	event_base_free(base);
}

int main(void)
{
	char *line;
	while ((line = j_readline(stdin))) {
		if (!line[0]) { free(line); continue; }
		jval *sc = j_parse(line);
		char *obuf = NULL; size_t olen = 0;
		out = open_memstream(&obuf, &olen);
		fprintf(out, "{\"ev\":[");
		run(sc);
		fprintf(out, "]}\n");
		fclose(out);
		fputs(obuf, stdout); fflush(stdout);
		free(obuf); free(line); j_free_all();
	}
	return 0;
}
