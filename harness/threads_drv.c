/* Driver for C09 (specs/Threads.tla programs, specs/ThreadsObs.tla monitor).
 * One loop thread runs event_base_loop; worker threads run the programs of the
 * scenario (event_add with a short timeout, event_active, event_del,
 * event_del_block, event_del_noblock, loopbreak) on a shared pool of events.
 * Every API call (Call/Ret) and every callback (CbBegin/CbEnd) is stamped with
 * one atomic counter; the stamped events are the trace validated by TLC.
 * Lock callbacks are our own pthread wrappers that inject seeded random yields
 * before/after every lock operation (preemption at lock granularity).
 * stdin: {"cfg":{"seed":n,"cbus":n,"yield":n},"progs":[[{"op":..,"e":..},..],..]}
 * stdout: {"trace":[{"s":..,"t":..,"k":..,"op":..,"e":..},..],"lost":0|1,"stuck":0|1}
 */
#include <event2/event.h>
#include <event2/thread.h>
#include <event2/util.h>
#include <pthread.h>
#include <stdatomic.h>
#include <sched.h>
#include <unistd.h>
#include <time.h>
#include <signal.h>
#include "mjson.h"

#define MAXEV 4
#define MAXW 4
#define MAXLOG 4096

static struct event_base *base;
static struct event *ev[MAXEV + 2], *far_timer;
static atomic_long stamp;
static atomic_int running[MAXEV + 2], sentinel_ran, loop_done;
static int cbus, yield_pct, react;
static atomic_int unresolved[MAXEV + 2], reacted[MAXEV + 2];
static int iopipe[2];
struct rec { long s; int t; const char *k; const char *op; int e; };
static struct rec logbuf[MAXLOG];
static atomic_int nlog;
static __thread unsigned rng;
static __thread int tid;

static void logev(const char *k, const char *op, int e)
{
	int i = atomic_fetch_add(&nlog, 1);
	long s = atomic_fetch_add(&stamp, 1);
	if (i < MAXLOG) { logbuf[i].s = s; logbuf[i].t = tid; logbuf[i].k = k; logbuf[i].op = op; logbuf[i].e = e; }
}
static unsigned rnd(void) { rng = rng * 1103515245u + 12345u; return (rng >> 16) & 0x7fff; }
static void maybe_yield(void)
{
	unsigned r;
	if (!yield_pct) return;
	r = rnd() % 100;
	if (r < (unsigned)yield_pct) { if (rnd() & 1) sched_yield(); else usleep(rnd() % 60); }
}

/* ---- lock callbacks: pthread mutexes with injected yields */
static void *l_alloc(unsigned t)
{
	pthread_mutex_t *m = malloc(sizeof(*m));
	pthread_mutexattr_t a;
	pthread_mutexattr_init(&a);
	if (t & EVTHREAD_LOCKTYPE_RECURSIVE) pthread_mutexattr_settype(&a, PTHREAD_MUTEX_RECURSIVE);
	pthread_mutex_init(m, &a);
	pthread_mutexattr_destroy(&a);
	return m;
}
static void l_free(void *l, unsigned t) { pthread_mutex_destroy(l); free(l); }
static int l_lock(unsigned mode, void *l)
{
	int r;
	maybe_yield();
	if (mode & EVTHREAD_TRY) r = pthread_mutex_trylock(l); else r = pthread_mutex_lock(l);
	return r;
}
static int l_unlock(unsigned mode, void *l) { int r = pthread_mutex_unlock(l); maybe_yield(); return r; }
static void *c_alloc(unsigned t) { pthread_cond_t *c = malloc(sizeof(*c)); pthread_cond_init(c, NULL); return c; }
static void c_free(void *c) { pthread_cond_destroy(c); free(c); }
static int c_signal(void *c, int b) { return b ? pthread_cond_broadcast(c) : pthread_cond_signal(c); }
static int c_wait(void *c, void *l, const struct timeval *tv)
{
	if (tv) {
		struct timespec ts; clock_gettime(CLOCK_REALTIME, &ts);
		ts.tv_sec += tv->tv_sec; ts.tv_nsec += tv->tv_usec * 1000;
		if (ts.tv_nsec >= 1000000000L) { ts.tv_sec++; ts.tv_nsec -= 1000000000L; }
		return pthread_cond_timedwait(c, l, &ts) ? 1 : 0;
	}
	return pthread_cond_wait(c, l);
}
static unsigned long id_fn(void) { return (unsigned long)pthread_self(); }

static void spin_us(int us)
{
	struct timespec a, b;
	clock_gettime(CLOCK_MONOTONIC, &a);
	for (;;) {
		clock_gettime(CLOCK_MONOTONIC, &b);
		if ((b.tv_sec - a.tv_sec) * 1000000L + (b.tv_nsec - a.tv_nsec) / 1000 >= us) break;
		if (us > 200) sched_yield();
	}
}

static void cb(evutil_socket_t fd, short what, void *arg)
{
	int e = (int)(intptr_t)arg;
	atomic_store(&running[e], 1);
	atomic_store(&unresolved[e], 0);
	logev("CbBegin", "", e);
	if (react && !atomic_exchange(&reacted[e], 1)) {
		/* the callback re-activates its own event once (an arm made from the loop thread) */
		logev("Call", "active", e);
		atomic_store(&unresolved[e], 1);
		event_active(ev[e], EV_READ, 1);
		logev("Ret", "active", e);
	}
	spin_us(cbus);
	logev("CbEnd", "", e);
	atomic_store(&running[e], 0);
}
static void sentinel_cb(evutil_socket_t fd, short what, void *arg) { atomic_store(&sentinel_ran, 1); }
static void far_cb(evutil_socket_t fd, short what, void *arg) { }

static void *loop_thread(void *arg)
{
	tid = 0; rng = 12345;
	event_base_loop(base, EVLOOP_NO_EXIT_ON_EMPTY);
	atomic_store(&loop_done, 1);
	return NULL;
}

struct wctx { int id; jval *prog; unsigned seed; };
static void *worker(void *arg)
{
	struct wctx *w = arg;
	size_t i;
	tid = w->id; rng = w->seed;
	for (i = 0; i < w->prog->n; i++) {
		jval *op = w->prog->items[i];
		const char *o = j_str(op, "op", "");
		int e = (int)j_int(op, "e", 1);
		maybe_yield();
		if (!strcmp(o, "sync")) { /* wait (bounded) until e's callback is running: aims the next op into the window */
			int k; for (k = 0; k < 20000 && !atomic_load(&running[e]); k++) spin_us(5);
			continue;
		}
		if (!strcmp(o, "sleep")) { usleep((useconds_t)j_int(op, "us", 100)); continue; }
		if (o[0] == 'd') atomic_store(&unresolved[e], 0);
		logev("Call", o, e);
		if (!strcmp(o, "add")) {
			/* events 1,2: pure timers (1.5 ms); events 3,4: readable-pipe I/O events with a two-hour
			 * timeout (not the heap minimum: only the backend change can make the loop notice) */
			struct timeval tv = {0, 1500}, two_h = {7200, 0};
			event_add(ev[e], e >= 3 ? &two_h : &tv);
			atomic_store(&unresolved[e], 1);
		}
		else if (!strcmp(o, "active")) { event_active(ev[e], EV_READ, 1); atomic_store(&unresolved[e], 1); }
		else if (!strcmp(o, "del")) event_del(ev[e]);
		else if (!strcmp(o, "del_block")) event_del_block(ev[e]);
		else if (!strcmp(o, "del_noblock")) event_del_noblock(ev[e]);
		else if (!strcmp(o, "break")) event_base_loopbreak(base);
		logev("Ret", o, e);
	}
	return NULL;
}

static int cmp_rec(const void *a, const void *b) { long x = ((const struct rec *)a)->s, y = ((const struct rec *)b)->s; return x < y ? -1 : x > y; }

static void run_scenario(jval *sc)
{
	jval *cfg = j_get(sc, "cfg"), *progs = j_get(sc, "progs");
	pthread_t lt, wt[MAXW];
	struct wctx wc[MAXW];
	struct timeval hour = {3600, 0};
	int i, nw = progs ? (int)progs->n : 0, lost = 0, stuck = 0, k, n;
	unsigned seed = (unsigned)j_int(cfg, "seed", 1);

	struct event_config *ec = event_config_new();
	const char *backend = j_str(cfg, "backend", "epoll");
	static const char *methods[] = {"epoll", "poll", "select", NULL};
	cbus = (int)j_int(cfg, "cbus", 300);
	react = (int)j_int(cfg, "react", 0);
	yield_pct = (int)j_int(cfg, "yield", 30);
	atomic_store(&stamp, 1); atomic_store(&nlog, 0); atomic_store(&sentinel_ran, 0); atomic_store(&loop_done, 0);
	for (i = 0; methods[i]; i++) if (strcmp(methods[i], backend)) event_config_avoid_method(ec, methods[i]);
	if (j_int(cfg, "changelist", 0)) event_config_set_flag(ec, EVENT_BASE_FLAG_EPOLL_USE_CHANGELIST);
	base = event_base_new_with_config(ec);
	event_config_free(ec);
	if (pipe(iopipe) < 0 || write(iopipe[1], "x", 1) != 1) { perror("pipe"); exit(3); }
	evutil_make_socket_nonblocking(iopipe[0]);
	for (i = 1; i <= MAXEV; i++) {
		ev[i] = i >= 3 ? event_new(base, iopipe[0], EV_READ, cb, (void *)(intptr_t)i)
			       : event_new(base, -1, 0, cb, (void *)(intptr_t)i);
		atomic_store(&running[i], 0); atomic_store(&unresolved[i], 0); atomic_store(&reacted[i], 0);
	}
	ev[MAXEV + 1] = event_new(base, -1, 0, sentinel_cb, NULL);
	far_timer = event_new(base, -1, 0, far_cb, NULL);
	event_add(far_timer, &hour);   /* the "unrelated timeout": the loop sleeps for an hour unless woken */
	pthread_create(&lt, NULL, loop_thread, NULL);
	usleep(2000); /* let the loop reach its wait */
	for (i = 0; i < nw && i < MAXW; i++) {
		wc[i].id = i + 1; wc[i].prog = progs->items[i]; wc[i].seed = seed * 7919u + (unsigned)i * 104729u + 1;
		pthread_create(&wt[i], NULL, worker, &wc[i]);
	}
	for (i = 0; i < nw && i < MAXW; i++) {
		/* a worker stuck in a call (deadlock / lost condition signal) is a violation */
		struct timespec ts; clock_gettime(CLOCK_REALTIME, &ts); ts.tv_sec += 5;
		if (pthread_timedjoin_np(wt[i], NULL, &ts) != 0) { stuck = 1; }
	}
	if (!stuck) {
		/* Nothing pokes the loop now: every arm made by the workers must be acted on by the loop on its
		 * own (within a generous 3 s; the loop otherwise sleeps on a one-hour timer). */
		for (k = 0; k < 3000 && !atomic_load(&loop_done); k++) {
			int any = 0;
			for (i = 1; i <= MAXEV; i++) any |= atomic_load(&unresolved[i]);
			if (!any) break;
			usleep(1000);
		}
		tid = 9;
		logev("Quiet", "", 0);
		if (!atomic_load(&loop_done)) {
			int round;
			tid = 9;
			/* two sentinel rounds: everything that was due or active when the first sentinel
			 * ran has been processed by the time the second one runs (FIFO active queue) */
			for (round = 0; round < 2 && !lost; round++) {
				atomic_store(&sentinel_ran, 0);
				event_active(ev[MAXEV + 1], EV_READ, 1);
				for (k = 0; k < 3000 && !atomic_load(&sentinel_ran) && !atomic_load(&loop_done); k++) usleep(1000);
				if (!atomic_load(&sentinel_ran) && !atomic_load(&loop_done)) lost = 1;
			}
		}
		logev("End", "", 0);
		event_base_loopbreak(base);
		{
			struct timespec ts; clock_gettime(CLOCK_REALTIME, &ts); ts.tv_sec += 3;
			if (pthread_timedjoin_np(lt, NULL, &ts) != 0) { lost = 1; stuck = 1; }
		}
	}
	n = atomic_load(&nlog); if (n > MAXLOG) n = MAXLOG;
	qsort(logbuf, n, sizeof(logbuf[0]), cmp_rec);
	printf("{\"trace\":[");
	for (i = 0; i < n; i++)
		printf("%s{\"s\":%ld,\"t\":%d,\"k\":\"%s\",\"op\":\"%s\",\"e\":%d}", i ? "," : "", logbuf[i].s, logbuf[i].t, logbuf[i].k, logbuf[i].op, logbuf[i].e);
	printf("],\"lost\":%d,\"stuck\":%d}\n", lost, stuck);
	fflush(stdout);
	if (stuck) _exit(0); /* threads are wedged; the process cannot be reused */
	for (i = 1; i <= MAXEV + 1; i++) event_free(ev[i]);
	event_free(far_timer);
	event_base_free(base);
	close(iopipe[0]); close(iopipe[1]);
}

static void quiet_log(int sev, const char *msg) { (void)sev; (void)msg; }
int main(void)
{
	static struct evthread_lock_callbacks cbs = { EVTHREAD_LOCK_API_VERSION, EVTHREAD_LOCKTYPE_RECURSIVE, l_alloc, l_free, l_lock, l_unlock };
	static struct evthread_condition_callbacks ccbs = { EVTHREAD_CONDITION_API_VERSION, c_alloc, c_free, c_signal, c_wait };
	char *line;
	evthread_set_lock_callbacks(&cbs);
	evthread_set_condition_callbacks(&ccbs);
	evthread_set_id_callback(id_fn);
	event_set_log_callback(quiet_log);
	while ((line = j_readline(stdin))) {
		if (line[0]) { jval *sc = j_parse(line); run_scenario(sc); j_free_all(); }
		free(line);
	}
	return 0;
}
