/* Driver for specs/WsFrames.tla (C31: binding V/G, C32: binding G).
 *
 * A real evhttp server listens on a loopback TCP port; its "/ws" route calls
 * evws_new_session().  Each scenario is one TCP connection made by a raw
 * client socket owned by this driver.
 *
 * stdin : one scenario per line {"h":[op,...]}  (+ "full":1 to get all bytes written back as hex, not only 96)
 *   {"a":"open","req":"<bytes of the HTTP upgrade request>"}
 *   {"a":"send","ch":[chunk,...]}   one write of client bytes; chunk =
 *        {"b":[byte,...]}                              literal bytes
 *        {"p":[n,s,b,m],"off":o,"len":l,"k":[k0..k3]}  bytes o..o+l-1 of the payload
 *              pattern byte(i) = b + ((s + 7 i) mod m), XORed with k[i mod 4] if k is given
 *   {"a":"text","p":[n,s,b,m]} {"a":"bin","p":[n,s,b,m]}   evws_send_text / evws_send_binary
 *   {"a":"close","code":c}                                  evws_close
 * stdout: one line per scenario {"obs":[obs,...]}; after every op the event loop
 * is run until quiescent (server consumed everything written, its output is
 * flushed, the client socket is drained) and the observation lists what happened
 * during the op: message callbacks (type, length, crc32), close callbacks so far,
 * whether the client saw EOF, and the bytes the server wrote to the client.
 * No oracle logic here; the payload pattern and all frame bytes come from the spec.
 */
#include <event2/event.h>
#include <event2/http.h>
#include <event2/buffer.h>
#include <event2/bufferevent.h>
#include <event2/listener.h>
#include <event2/ws.h>
#include <event2/util.h>
#include <sys/socket.h>
#include <netinet/in.h>
#include <netinet/tcp.h>
#include <arpa/inet.h>
#include <signal.h>
#include <unistd.h>
#include <fcntl.h>
#include <errno.h>
#include <time.h>
#include <stdint.h>
#include "mjson.h"

#define WATCHDOG_S 180.0   /* hang detection only (reported as infrastructure error), generous for loaded machines */

static struct event_base *base;
static struct evhttp *http;
static int port;
static FILE *out;

/* per-scenario state */
static int cfd = -1;            /* raw client socket */
static struct evws_connection *evws;
static int alive;               /* session exists and its close callback has not run */
static int nsessions, nclosed, upgrade_failed;
static long long in_base, in_added, written; /* server-side input accounting / client bytes written after the handshake */
static long long out_deleted, rx_total;      /* bytes the server handed to its socket / bytes the client received */
static int client_eof, wr_dead, watchdog, full_wb;
static unsigned char *wb; static size_t wblen, wbcap;   /* bytes received by the client in this step */
static char msglog[1 << 16]; static size_t msglen; static int nmsg;

static uint32_t crc_tab[256];
static void crc_init(void)
{
	for (uint32_t i = 0; i < 256; i++) {
		uint32_t c = i;
		for (int k = 0; k < 8; k++) c = (c & 1) ? 0xEDB88320u ^ (c >> 1) : c >> 1;
		crc_tab[i] = c;
	}
}
static uint32_t crc32_of(const unsigned char *p, size_t n)
{
	uint32_t c = 0xFFFFFFFFu;
	for (size_t i = 0; i < n; i++) c = crc_tab[(c ^ p[i]) & 0xff] ^ (c >> 8);
	return c ^ 0xFFFFFFFFu;
}

static double now_s(void)
{
	struct timespec ts;
	clock_gettime(CLOCK_MONOTONIC, &ts);
	return ts.tv_sec + ts.tv_nsec / 1e9;
}

/* ---- server side callbacks */
static void on_msg(struct evws_connection *c, int type, const unsigned char *data, size_t len, void *arg)
{
	if (msglen + 128 < sizeof msglog)
		msglen += snprintf(msglog + msglen, sizeof(msglog) - msglen, "%s{\"t\":%d,\"n\":%zu,\"crc\":%u,\"own\":%d}",
		    nmsg ? "," : "", type, len, crc32_of(data, len), c == evws && alive);
	nmsg++;
}
static void on_close(struct evws_connection *c, void *arg)
{
	nclosed++;
	if (c == evws) { alive = 0; evws = NULL; }
}
static void in_cb(struct evbuffer *b, const struct evbuffer_cb_info *info, void *arg)
{
	in_added += (long long)info->n_added;
}
static void out_cb(struct evbuffer *b, const struct evbuffer_cb_info *info, void *arg)
{
	out_deleted += (long long)info->n_deleted;
}
static void on_upgrade(struct evhttp_request *req, void *arg)
{
	struct evws_connection *c = evws_new_session(req, on_msg, NULL, 0);
	if (!c) { upgrade_failed++; return; }
	nsessions++;
	evws = c; alive = 1;
	evws_connection_set_closecb(c, on_close, NULL);
	{
		struct evbuffer *in = bufferevent_get_input(evws_connection_get_bufferevent(c));
		in_base = (long long)evbuffer_get_length(in);
		in_added = 0;
		evbuffer_add_cb(in, in_cb, NULL);
		/* the 101 response is still in the output buffer at this point, so every byte is counted */
		out_deleted = 0;
		evbuffer_add_cb(bufferevent_get_output(evws_connection_get_bufferevent(c)), out_cb, NULL);
	}
}

/* ---- client side */
static int drain_client(void)
{
	int got = 0;
	if (cfd < 0 || client_eof) return 0;
	for (;;) {
		if (wblen + 65536 > wbcap) { wbcap = wbcap ? wbcap * 2 : 1 << 17; wb = realloc(wb, wbcap); }
		ssize_t r = read(cfd, wb + wblen, 65536);
		if (r > 0) { wblen += (size_t)r; got += (int)r; rx_total += r; continue; }
		if (r == 0) { client_eof = 1; break; }
		if (errno == EINTR) continue;
		if (errno == EAGAIN || errno == EWOULDBLOCK) break;
		client_eof = 1; /* ECONNRESET: the server closed with unread input */
		break;
	}
	return got;
}

static int server_out_pending(void)
{
	if (!alive) return 0;
	return evbuffer_get_length(bufferevent_get_output(evws_connection_get_bufferevent(evws))) > 0;
}

/* run the loop until nothing more can happen without new client input */
static void settle(int want_head)
{
	double t0 = now_s();
	int idle = 0;
	for (;;) {
		int got, busy;
		event_base_loop(base, EVLOOP_NONBLOCK);
		got = drain_client();
		busy = got > 0;
		if (want_head) {
			/* waiting for the end of the HTTP response head */
			int done = client_eof;
			if (wblen >= 4) {
				for (size_t i = 0; i + 4 <= wblen; i++)
					if (!memcmp(wb + i, "\r\n\r\n", 4)) { done = 1; break; }
			}
			if (!done) busy = 1;
		} else {
			if (alive && !wr_dead && in_added < written) busy = 1; /* server has not read everything yet */
			if (server_out_pending()) busy = 1;
			if (nsessions && !client_eof && rx_total < out_deleted) busy = 1; /* bytes still in flight to the client */
			if (!alive && nsessions && !client_eof) busy = 1;      /* connection freed: EOF must arrive */
		}
		if (!busy) { if (++idle >= 2) break; } else idle = 0;
		if (now_s() - t0 > WATCHDOG_S) { watchdog = 1; break; }
	}
}

static void client_write(const unsigned char *p, size_t n)
{
	size_t off = 0;
	double t0 = now_s();
	while (off < n && !wr_dead) {
		ssize_t r = write(cfd, p + off, n - off);
		if (r > 0) { off += (size_t)r; written += r; continue; }
		if (r < 0 && errno == EINTR) continue;
		if (r < 0 && (errno == EAGAIN || errno == EWOULDBLOCK)) {
			event_base_loop(base, EVLOOP_NONBLOCK);
			drain_client();
			if (now_s() - t0 > WATCHDOG_S) { watchdog = 1; break; }
			continue;
		}
		wr_dead = 1; /* EPIPE / ECONNRESET: the peer is gone */
	}
}

static unsigned char *pattern(jval *p, long long off, long long len, jval *k)
{
	long long s = p->items[1]->i, b = p->items[2]->i, m = p->items[3]->i;
	unsigned char *buf = malloc((size_t)len + 1);
	for (long long i = 0; i < len; i++) {
		long long idx = off + i;
		unsigned v = (unsigned)(b + ((s + 7 * idx) % m));
		if (k && k->n == 4) v ^= (unsigned)k->items[idx & 3]->i;
		buf[i] = (unsigned char)v;
	}
	buf[len] = 0;
	return buf;
}

static void print_obs(const char *extra)
{
	size_t hx = (full_wb || wblen < 96) ? wblen : 96;   /* "full":1 in the scenario: report every byte written back */
	fprintf(out, "{\"msgs\":[%s],\"closed\":%d,\"eof\":%d,\"alive\":%d,\"wd\":%d,\"wb\":{\"n\":%zu,\"crc\":%u,\"hex\":\"",
	    msglog, nclosed, client_eof, alive, watchdog, wblen, crc32_of(wb, wblen));
	for (size_t i = 0; i < hx; i++) fprintf(out, "%02x", wb[i]);
	fprintf(out, "\"}%s}", extra ? extra : "");
	msglen = 0; msglog[0] = 0; nmsg = 0; wblen = 0;
}

static void exec_op(jval *op)
{
	const char *a = j_str(op, "a", "");
	if (!strcmp(a, "open")) {
		struct sockaddr_in sin;
		jval *req = j_get(op, "req");
		int one = 1;
		memset(&sin, 0, sizeof sin);
		sin.sin_family = AF_INET; sin.sin_port = htons(port); sin.sin_addr.s_addr = htonl(INADDR_LOOPBACK);
		cfd = socket(AF_INET, SOCK_STREAM, 0);
		if (cfd < 0 || connect(cfd, (struct sockaddr *)&sin, sizeof sin) < 0) { fprintf(out, "{\"err\":\"connect\"}"); return; }
		setsockopt(cfd, IPPROTO_TCP, TCP_NODELAY, &one, sizeof one);
		evutil_make_socket_nonblocking(cfd);
		client_write((unsigned char *)req->str, req->slen);
		written = 0; /* only bytes after the handshake are counted against the session's input */
		settle(1);
		{
			/* report the response head verbatim; whatever follows it stays in wb */
			size_t hl = wblen;
			for (size_t i = 0; i + 4 <= wblen; i++)
				if (!memcmp(wb + i, "\r\n\r\n", 4)) { hl = i + 4; break; }
			fprintf(out, "{\"head\":");
			j_put_str(out, (char *)wb, hl);
			fprintf(out, ",\"sess\":%d,\"failed\":%d,\"rest\":%zu,\"eof\":%d,\"wd\":%d}", nsessions, upgrade_failed, wblen - hl, client_eof, watchdog);
			memmove(wb, wb + hl, wblen - hl); wblen -= hl;
		}
		return;
	}
	if (!strcmp(a, "send")) {
		jval *ch = j_get(op, "ch");
		size_t total = 0, cap = 1 << 12;
		unsigned char *seg = malloc(cap);
		for (size_t i = 0; ch && i < ch->n; i++) {
			jval *c = ch->items[i], *b = j_get(c, "b"), *p = j_get(c, "p");
			if (b) {
				if (total + b->n > cap) { while (total + b->n > cap) cap *= 2; seg = realloc(seg, cap); }
				for (size_t k = 0; k < b->n; k++) seg[total++] = (unsigned char)b->items[k]->i;
			} else if (p) {
				long long off = j_int(c, "off", 0), len = j_int(c, "len", 0);
				unsigned char *pb = pattern(p, off, len, j_get(c, "k"));
				if (total + (size_t)len > cap) { while (total + (size_t)len > cap) cap *= 2; seg = realloc(seg, cap); }
				memcpy(seg + total, pb, (size_t)len); total += (size_t)len;
				free(pb);
			}
		}
		if (cfd >= 0) client_write(seg, total);
		free(seg);
		settle(0);
		print_obs(NULL);
		return;
	}
	if (!strcmp(a, "text") || !strcmp(a, "bin")) {
		jval *p = j_get(op, "p");
		long long n = p->items[0]->i;
		unsigned char *pb;
		if (!alive) { fprintf(out, "{\"err\":\"no session\"}"); return; }
		pb = pattern(p, 0, n, NULL);
		if (a[0] == 't') evws_send_text(evws, (char *)pb);
		else evws_send_binary(evws, (char *)pb, (size_t)n);
		free(pb);
		settle(0);
		print_obs(NULL);
		return;
	}
	if (!strcmp(a, "close")) {
		if (!alive) { fprintf(out, "{\"err\":\"no session\"}"); return; }
		evws_close(evws, (uint16_t)j_int(op, "code", 1000));
		settle(0);
		print_obs(NULL);
		return;
	}
	fprintf(out, "{\"err\":\"unknown op\"}");
}

static void run_scenario(jval *sc)
{
	jval *h = j_get(sc, "h");
	full_wb = (int)j_int(sc, "full", 0);
	cfd = -1; evws = NULL; alive = 0; nsessions = nclosed = upgrade_failed = 0;
	in_base = in_added = written = 0; client_eof = wr_dead = watchdog = 0; out_deleted = rx_total = 0;
	wblen = 0; msglen = 0; msglog[0] = 0; nmsg = 0;
	fprintf(out, "{\"obs\":[");
	for (size_t k = 0; h && k < h->n; k++) {
		if (k) fputc(',', out);
		exec_op(h->items[k]);
	}
	fprintf(out, "]}\n");
	/* teardown: the client goes away; the server must release the session */
	if (cfd >= 0) { close(cfd); cfd = -1; }
	client_eof = 1;
	for (int i = 0; i < 50 && alive; i++) event_base_loop(base, EVLOOP_NONBLOCK);
	if (alive) evws_connection_free(evws);
	for (int i = 0; i < 3; i++) event_base_loop(base, EVLOOP_NONBLOCK);
}

static void quiet_log(int sev, const char *msg) { (void)sev; (void)msg; }

int main(int argc, char **argv)
{
	char *line;
	struct evhttp_bound_socket *bs;
	struct sockaddr_in sin; socklen_t sl = sizeof sin;
	signal(SIGPIPE, SIG_IGN);
	event_set_log_callback(quiet_log);
	crc_init();
	base = event_base_new();
	http = evhttp_new(base);
	evhttp_set_cb(http, "/ws", on_upgrade, NULL);
	bs = evhttp_bind_socket_with_handle(http, "127.0.0.1", 0);
	if (!bs || getsockname(evhttp_bound_socket_get_fd(bs), (struct sockaddr *)&sin, &sl) < 0) { fprintf(stderr, "bind failed\n"); return 3; }
	port = ntohs(sin.sin_port);
	while ((line = j_readline(stdin))) {
		if (line[0]) {
			jval *sc = j_parse(line);
			char *mbuf = NULL; size_t mlen = 0;
			out = open_memstream(&mbuf, &mlen);
			run_scenario(sc);
			fclose(out);
			fwrite(mbuf, 1, mlen, stdout);
			fflush(stdout);
			free(mbuf);
			j_free_all();
		}
		free(line);
	}
	evhttp_free(http);
	event_base_free(base);
	free(wb);
	return 0;
}
