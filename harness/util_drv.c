/* Driver for the pure-function modules (binding G):
 *   specs/Escape.tla (C29), specs/Uri.tla (C28), specs/Evtag.tla (C42),
 *   specs/Ascii.tla (C41), specs/Inet.tla (C40).
 * stdin: one case per line {"op":"<name>", ...arguments...}; byte strings are JSON
 * arrays of integers 0..255.  stdout: one line per case with what the real
 * libevent function returned.  No oracle logic here: the expected values come
 * from the TLA+ modules and are compared by checks/util_common.py.
 * Every input is copied into a heap block of exactly its size so that ASan
 * reports any read or write outside it.
 */
#include <event2/event.h>
#include <event2/buffer.h>
#include <event2/http.h>
#include <event2/keyvalq_struct.h>
#include <event2/tag.h>
#include <event2/util.h>
#include "util-internal.h"
#include <sys/queue.h>
#include <sys/socket.h>
#include <netinet/in.h>
#include <arpa/inet.h>
#include <errno.h>
#include <stdint.h>
#include "mjson.h"

static FILE *out;
static void nolog(int sev, const char *msg) { (void)sev; (void)msg; }

/* ---- helpers ---------------------------------------------------------- */
/* bytes of an int array, in an exact-size heap block (n may be 0) */
static unsigned char *arr_bytes(const jval *a, size_t *n)
{
	size_t i;
	unsigned char *b;
	*n = (a && a->t == J_ARR) ? a->n : 0;
	b = malloc(*n ? *n : 1);
	for (i = 0; i < *n; i++) b[i] = (unsigned char)a->items[i]->i;
	return b;
}
static unsigned char *get_bytes(const jval *o, const char *k, size_t *n) { return arr_bytes(j_get(o, k), n); }
/* C string (exact-size block of n+1 bytes); NULL when the key is absent or JSON null */
static char *arr_cstr(const jval *a)
{
	size_t i, n;
	char *b;
	if (!a || a->t != J_ARR) return NULL;
	n = a->n;
	b = malloc(n + 1);
	for (i = 0; i < n; i++) b[i] = (char)a->items[i]->i;
	b[n] = 0;
	return b;
}
static char *get_cstr(const jval *o, const char *k) { return arr_cstr(j_get(o, k)); }
static void put_bytes(const void *p, size_t n)
{
	size_t i;
	const unsigned char *b = p;
	fputc('[', out);
	for (i = 0; i < n; i++) fprintf(out, "%s%u", i ? "," : "", b[i]);
	fputc(']', out);
}
static void put_cstr(const char *s)
{
	if (!s) fputs("null", out);
	else put_bytes(s, strlen(s));
}

/* ---- C29: escaping ----------------------------------------------------- */
static void put_decoded(const char *x, int plus)
{
	size_t sz = (size_t)-1;
	char *d = x ? evhttp_uridecode(x, plus, &sz) : NULL;
	if (!d) { fputs("null", out); return; }
	/* the result must be NUL-terminated at size_out */
	fprintf(out, "{\"b\":");
	put_bytes(d, sz);
	fprintf(out, ",\"z\":%d}", d[sz] == 0);
	free(d);
}
static void op_esc(const jval *c)
{
	size_t n;
	unsigned char *in = get_bytes(c, "i", &n);
	int nul = (int)j_int(c, "nul", 0);
	char *e0 = evhttp_uriencode((char *)in, (ev_ssize_t)n, 0);
	char *e1 = evhttp_uriencode((char *)in, (ev_ssize_t)n, 1);
	fprintf(out, "{\"e0\":"); put_cstr(e0);
	fprintf(out, ",\"e1\":"); put_cstr(e1);
	/* decoding what the real encoder produced */
	fprintf(out, ",\"rt00\":"); put_decoded(e0, 0);
	fprintf(out, ",\"rt11\":"); put_decoded(e1, 1);
	fprintf(out, ",\"rt01\":"); put_decoded(e0, 1);
	if (!nul) {
		char *s = get_cstr(c, "i");
		char *e0n = evhttp_uriencode(s, -1, 0);
		char *e1n = evhttp_uriencode(s, -1, 1);
		char *e0d = evhttp_encode_uri(s);
		char *h = evhttp_htmlescape(s);
		fprintf(out, ",\"e0n\":"); put_cstr(e0n);
		fprintf(out, ",\"e1n\":"); put_cstr(e1n);
		fprintf(out, ",\"e0d\":"); put_cstr(e0d);
		fprintf(out, ",\"d0\":"); put_decoded(s, 0);
		fprintf(out, ",\"d1\":"); put_decoded(s, 1);
		fprintf(out, ",\"h\":"); put_cstr(h);
		free(e0n); free(e1n); free(e0d); free(h); free(s);
	}
	fputc('}', out);
	free(e0); free(e1); free(in);
}

static void put_kvq(int rc, struct evkeyvalq *q)
{
	struct evkeyval *kv;
	int first = 1;
	fprintf(out, "{\"rc\":%d,\"kv\":[", rc);
	TAILQ_FOREACH(kv, q, next) {
		fprintf(out, "%s[", first ? "" : ",");
		put_cstr(kv->key); fputc(',', out); put_cstr(kv->value);
		fputc(']', out);
		first = 0;
	}
	fputs("]}", out);
}
static void op_query(const jval *c)
{
	char *s = get_cstr(c, "i");
	unsigned f;
	fprintf(out, "{\"q\":[");
	for (f = 0; f < 4; f++) {
		struct evkeyvalq q;
		int rc = evhttp_parse_query_str_flags(s, &q, f);
		if (f) fputc(',', out);
		put_kvq(rc, &q);
		evhttp_clear_headers(&q);
	}
	fputs("],\"plain\":", out);
	{	/* evhttp_parse_query_str = flags 0 */
		struct evkeyvalq q;
		int rc = evhttp_parse_query_str(s, &q);
		put_kvq(rc, &q);
		evhttp_clear_headers(&q);
	}
	fputc('}', out);
	free(s);
}


/* ---- C28: URIs ---------------------------------------------------------- */
/* absent (NULL) components are printed as [-1] like the specification's Null */
static void put_opt(const char *s)
{
	if (!s) fputs("[-1]", out);
	else put_bytes(s, strlen(s));
}
static void put_comps(const struct evhttp_uri *u)
{
	fprintf(out, "{\"s\":"); put_opt(evhttp_uri_get_scheme(u));
	fprintf(out, ",\"u\":"); put_opt(evhttp_uri_get_userinfo(u));
	fprintf(out, ",\"h\":"); put_opt(evhttp_uri_get_host(u));
	fprintf(out, ",\"p\":%d", evhttp_uri_get_port(u));
	fprintf(out, ",\"x\":"); put_opt(evhttp_uri_get_unixsocket(u));
	fprintf(out, ",\"pa\":"); put_opt(evhttp_uri_get_path(u));
	fprintf(out, ",\"q\":"); put_opt(evhttp_uri_get_query(u));
	fprintf(out, ",\"f\":"); put_opt(evhttp_uri_get_fragment(u));
	fputc('}', out);
}
/* join (big buffer, then a heap block of exactly the needed size), print it, re-parse it */
static void put_join_reparse(const struct evhttp_uri *u, unsigned fl)
{
	char big[4096];
	char *j = evhttp_uri_join((struct evhttp_uri *)u, big, sizeof(big));
	fprintf(out, ",\"jn\":%d,\"j\":", j != NULL);
	put_opt(j);
	if (j) {
		size_t n = strlen(j);
		char *exact = malloc(n + 1);
		char *je = evhttp_uri_join((struct evhttp_uri *)u, exact, n + 1);
		struct evhttp_uri *v;
		fprintf(out, ",\"je\":%d", je == exact && !memcmp(exact, big, n + 1));
		free(exact);
		exact = malloc(n + 1);            /* exact-size copy as parser input */
		memcpy(exact, big, n + 1);
		v = evhttp_uri_parse_with_flags(exact, fl);
		fprintf(out, ",\"rp\":");
		if (v) { fputs("{\"st\":\"ok\",\"c\":", out); put_comps(v); fputc('}', out); evhttp_uri_free(v); }
		else fputs("{\"st\":\"reject\"}", out);
		free(exact);
	}
}
static void op_uri(const jval *c)
{
	char *s = get_cstr(c, "i");
	unsigned fl = (unsigned)j_int(c, "fl", 0);
	struct evhttp_uri *u = evhttp_uri_parse_with_flags(s, fl);
	if (!u) {
		fputs("{\"st\":\"reject\"}", out);
	} else {
		fputs("{\"st\":\"ok\",\"c\":", out);
		put_comps(u);
		put_join_reparse(u, fl);
		fputc('}', out);
		evhttp_uri_free(u);
	}
	if (fl == 0) {	/* evhttp_uri_parse is the flags-0 parser */
		struct evhttp_uri *w = evhttp_uri_parse(s);
		if ((w != NULL) != (u != NULL)) { fclose(out); abort(); }
		if (w) evhttp_uri_free(w);
	}
	free(s);
}
static void op_uriset(const jval *c)
{
	unsigned fl = (unsigned)j_int(c, "fl", 0);
	const jval *a = j_get(c, "a");
	struct evhttp_uri *u = evhttp_uri_new();
	char *s = NULL;
	int rc;
	evhttp_uri_set_flags(u, fl);
	fputs("{\"rc\":{", out);
#define SETSTR(key, fn) do { \
		const jval *v = j_get(a, key); \
		s = (v && v->t == J_ARR && !(v->n == 1 && v->items[0]->i == -1)) ? arr_cstr(v) : NULL; \
		rc = fn(u, s); free(s); \
		fprintf(out, "\"%s\":%d,", key, rc); } while (0)
	SETSTR("s", evhttp_uri_set_scheme);
	SETSTR("u", evhttp_uri_set_userinfo);
	SETSTR("h", evhttp_uri_set_host);
	SETSTR("x", evhttp_uri_set_unixsocket);
	rc = evhttp_uri_set_port(u, (int)j_int(a, "p", -1));
	fprintf(out, "\"p\":%d,", rc);
	SETSTR("pa", evhttp_uri_set_path);
	SETSTR("q", evhttp_uri_set_query);
	SETSTR("f", evhttp_uri_set_fragment);
#undef SETSTR
	fputs("\"_\":0},\"c\":", out);
	put_comps(u);
	put_join_reparse(u, fl);
	fputc('}', out);
	evhttp_uri_free(u);
}


/* ---- C42: tagged data ---------------------------------------------------- */
int evtag_decode_int(ev_uint32_t *pnumber, struct evbuffer *evbuf);
int evtag_decode_int64(ev_uint64_t *pnumber, struct evbuffer *evbuf);
int evtag_encode_tag(struct evbuffer *evbuf, ev_uint32_t tag);
int evtag_decode_tag(ev_uint32_t *ptag, struct evbuffer *evbuf);

/* numbers travel as digit lists, least significant first, no leading zeros (base 16 or 128) */
static uint64_t digits_val(const jval *a, int bits)
{
	uint64_t v = 0;
	size_t i;
	if (!a || a->t != J_ARR) return 0;
	for (i = a->n; i > 0; i--) v = (v << bits) | (uint64_t)a->items[i - 1]->i;
	return v;
}
static void put_digits(uint64_t v, int bits)
{
	int first = 1;
	fputc('[', out);
	while (v) { fprintf(out, "%s%u", first ? "" : ",", (unsigned)(v & ((1u << bits) - 1))); v >>= bits; first = 0; }
	fputc(']', out);
}
static void free_ref(const void *data, size_t len, void *arg) { (void)len; (void)arg; free((void *)data); }
/* an evbuffer holding b[0..n) as reference chains of exact-size heap blocks:
 * cfg 0: one chain; cfg p in 1..n-1: two chains split at p; cfg n (n > 1): one chain per byte */
static struct evbuffer *split_buffer(const unsigned char *b, size_t n, size_t cfg)
{
	struct evbuffer *eb = evbuffer_new();
	size_t i, a = 0;
	for (i = 1; i <= n; i++) {
		int cut = (i == n) || (cfg == n && n > 1) || (cfg > 0 && cfg < n && i == cfg);
		if (cut) {
			unsigned char *blk = malloc(i - a);
			memcpy(blk, b + a, i - a);
			evbuffer_add_reference(eb, blk, i - a, free_ref, NULL);
			a = i;
		}
	}
	return eb;
}
static void put_buf(struct evbuffer *eb)
{
	size_t n = evbuffer_get_length(eb);
	unsigned char *t = malloc(n ? n : 1);
	evbuffer_copyout(eb, t, n);
	put_bytes(t, n);
	free(t);
}
static void put_fail(void) { fputs("{\"ok\":false}", out); }

/* one typed unmarshal call; kind: int i64 str raw tv fixN */
static void typed_unmarshal(struct evbuffer *eb, const char *k, ev_uint32_t need, size_t fixlen, int with_rem)
{
	int rc;
	if (!strncmp(k, "int", 3)) {
		ev_uint32_t v = 0xdeadbeef;
		rc = evtag_unmarshal_int(eb, need, &v);
		if (rc < 0) { put_fail(); return; }
		fprintf(out, "{\"ok\":true,\"rc\":%d,\"v\":", rc); put_digits(v, 4);
	} else if (!strncmp(k, "i64", 3)) {
		ev_uint64_t v = 0xdeadbeefdeadbeefULL;
		rc = evtag_unmarshal_int64(eb, need, &v);
		if (rc < 0) { put_fail(); return; }
		fprintf(out, "{\"ok\":true,\"rc\":%d,\"v\":", rc); put_digits(v, 4);
	} else if (!strcmp(k, "str")) {
		char *str = NULL;
		rc = evtag_unmarshal_string(eb, need, &str);
		if (rc < 0) { put_fail(); return; }
		fprintf(out, "{\"ok\":true,\"rc\":%d,\"v\":", rc); put_cstr(str);
		free(str);
	} else if (!strcmp(k, "raw")) {
		struct evbuffer *dst = evbuffer_new();
		ev_uint32_t tag = 0xdeadbeef;
		rc = evtag_unmarshal(eb, &tag, dst);
		if (rc < 0) { evbuffer_free(dst); put_fail(); return; }
		fprintf(out, "{\"ok\":true,\"rc\":%d,\"tag\":", rc); put_digits(tag, 7);
		fputs(",\"v\":", out); put_buf(dst);
		evbuffer_free(dst);
	} else if (!strncmp(k, "tv", 2)) {
		struct timeval tv = { -1, -1 };
		rc = evtag_unmarshal_timeval(eb, need, &tv);
		if (rc < 0) { put_fail(); return; }
		fprintf(out, "{\"ok\":true,\"rc\":%d,\"s\":", rc); put_digits((ev_uint32_t)tv.tv_sec, 4);
		fputs(",\"u\":", out); put_digits((ev_uint32_t)tv.tv_usec, 4);
	} else { /* fixed */
		unsigned char *d = malloc(fixlen ? fixlen : 1);
		rc = evtag_unmarshal_fixed(eb, need, d, fixlen);
		if (rc < 0) { free(d); put_fail(); return; }
		fprintf(out, "{\"ok\":true,\"rc\":%d,\"v\":", rc); put_bytes(d, fixlen);
		free(d);
	}
	if (with_rem) fprintf(out, ",\"rem\":%zu", evbuffer_get_length(eb));
	fputc('}', out);
}

/* run `fn` once per split configuration, each into its own memory stream; print the output of
 * configuration 0 under "key" and the list of configurations whose output differs */
typedef void (*split_fn)(struct evbuffer *eb, const jval *c);
static void over_splits(const unsigned char *b, size_t n, const jval *c, split_fn fn, const char *key)
{
	FILE *saved = out;
	char *ref = NULL; size_t reflen = 0;
	char *firstdiff = NULL;
	size_t cfg, ndiff = 0, firstcfg = 0;
	for (cfg = 0; cfg <= n; cfg++) {
		char *mem = NULL; size_t memlen = 0;
		struct evbuffer *eb;
		if (cfg == n && n <= 1 && cfg != 0) break;
		eb = split_buffer(b, n, cfg);
		out = open_memstream(&mem, &memlen);
		fn(eb, c);
		fclose(out);
		evbuffer_free(eb);
		if (cfg == 0) { ref = mem; reflen = memlen; }
		else {
			if (memlen != reflen || memcmp(mem, ref, reflen)) {
				if (!ndiff++) { firstdiff = mem; firstcfg = cfg; mem = NULL; }
			}
			free(mem);
		}
	}
	out = saved;
	fprintf(out, "\"%s\":%s,\"splits\":%zu,\"splitdiff\":%zu", key, ref, n + 1, ndiff);
	if (ndiff) fprintf(out, ",\"firstdiff\":{\"cfg\":%zu,\"out\":%s}", firstcfg, firstdiff);
	free(ref); free(firstdiff);
}

static void rt_steps(struct evbuffer *eb, const jval *c)
{
	const jval *items = j_get(c, "items");
	size_t i;
	fputc('[', out);
	for (i = 0; items && i < items->n; i++) {
		const jval *it = items->items[i];
		const char *k = j_str(it, "k", "");
		ev_uint32_t need = (ev_uint32_t)digits_val(j_get(it, "tag"), 7), tag = 0xdeadbeef, plen = 0xdeadbeef, tot = 0xdeadbeef;
		int r1 = evtag_peek(eb, &tag), r2 = evtag_payload_length(eb, &plen), r3 = evtag_peek_length(eb, &tot);
		if (i) fputc(',', out);
		if (r1 < 0 || r2 < 0 || r3 < 0) { fprintf(out, "{\"peek\":[%d,%d,%d]}", r1, r2, r3); continue; }
		fputs("{\"tag\":", out); put_digits(tag, 7);
		fputs(",\"plen\":", out); put_digits(plen, 4);
		fprintf(out, ",\"total\":%u,\"r\":", tot);
		typed_unmarshal(eb, k, need, 0, 0);
		fprintf(out, ",\"rem\":%zu}", evbuffer_get_length(eb));
	}
	fputc(']', out);
}
static void op_tagrt(const jval *c)
{
	const jval *items = j_get(c, "items");
	struct evbuffer *eb = evbuffer_new();
	size_t i, n;
	unsigned char *wire;
	for (i = 0; items && i < items->n; i++) {
		const jval *it = items->items[i];
		const char *k = j_str(it, "k", "");
		ev_uint32_t tag = (ev_uint32_t)digits_val(j_get(it, "tag"), 7);
		if (!strcmp(k, "int")) evtag_marshal_int(eb, tag, (ev_uint32_t)digits_val(j_get(it, "v"), 4));
		else if (!strcmp(k, "i64")) evtag_marshal_int64(eb, tag, digits_val(j_get(it, "v"), 4));
		else if (!strcmp(k, "str")) { char *str = get_cstr(it, "b"); evtag_marshal_string(eb, tag, str); free(str); }
		else if (!strcmp(k, "raw")) {
			size_t bn; unsigned char *b = get_bytes(it, "b", &bn);
			if (i & 1) {	/* alternate between the two raw marshalling calls */
				struct evbuffer *src = evbuffer_new();
				evbuffer_add(src, b, bn);
				evtag_marshal_buffer(eb, tag, src);
				evbuffer_free(src);
			} else evtag_marshal(eb, tag, b, (ev_uint32_t)bn);
			free(b);
		} else if (!strcmp(k, "intpad") || !strcmp(k, "i64pad") || !strcmp(k, "tvpad")) {
			/* declared length larger than the integers inside: real encoders + pad bytes, framed by evtag_marshal */
			struct evbuffer *tmp = evbuffer_new();
			size_t pad = (size_t)j_int(it, "pad", 0), bn;
			unsigned char *b;
			if (!strcmp(k, "intpad")) evtag_encode_int(tmp, (ev_uint32_t)digits_val(j_get(it, "v"), 4));
			else if (!strcmp(k, "i64pad")) evtag_encode_int64(tmp, digits_val(j_get(it, "v"), 4));
			else { evtag_encode_int(tmp, (ev_uint32_t)digits_val(j_get(it, "s"), 4)); evtag_encode_int(tmp, (ev_uint32_t)digits_val(j_get(it, "u"), 4)); }
			while (pad--) evbuffer_add(tmp, "\377", 1);
			bn = evbuffer_get_length(tmp);
			b = malloc(bn);
			evbuffer_remove(tmp, b, bn);
			evtag_marshal(eb, tag, b, (ev_uint32_t)bn);
			free(b); evbuffer_free(tmp);
		} else if (!strcmp(k, "tv")) {
			struct timeval tv;
			tv.tv_sec = (long)digits_val(j_get(it, "s"), 4);
			tv.tv_usec = (long)digits_val(j_get(it, "u"), 4);
			evtag_marshal_timeval(eb, tag, &tv);
		}
	}
	n = evbuffer_get_length(eb);
	wire = malloc(n ? n : 1);
	evbuffer_copyout(eb, wire, n);
	evbuffer_free(eb);
	fputs("{\"wire\":", out); put_bytes(wire, n); fputc(',', out);
	over_splits(wire, n, c, rt_steps, "steps");
	fputc('}', out);
	free(wire);
}

/* every decoder on a fresh copy of the bytes */
static void dec_all(struct evbuffer *src, const jval *c)
{
	size_t n = evbuffer_get_length(src);
	unsigned char *b = malloc(n ? n : 1);
	size_t cfg = (size_t)j_int(c, "_cfg", 0);
	struct evbuffer *eb;
	int rc;
	(void)cfg;
	evbuffer_copyout(src, b, n);
#define FRESH() do { eb = evbuffer_new(); evbuffer_add_buffer_reference(eb, src); } while (0)
#define DONE() evbuffer_free(eb)
	fputc('{', out);
	{ ev_uint32_t tag = 0xdeadbeef; FRESH(); rc = evtag_decode_tag(&tag, eb);
	  fputs("\"dtag\":", out);
	  if (rc < 0) put_fail(); else { fputs("{\"ok\":true,\"tag\":", out); put_digits(tag, 7); fprintf(out, ",\"rc\":%d,\"rem\":%zu}", rc, evbuffer_get_length(eb)); }
	  DONE(); }
	{ ev_uint32_t v = 0xdeadbeef; FRESH(); rc = evtag_decode_int(&v, eb);
	  fputs(",\"dint\":", out);
	  if (rc < 0) put_fail(); else { fputs("{\"ok\":true,\"v\":", out); put_digits(v, 4); fprintf(out, ",\"rem\":%zu}", evbuffer_get_length(eb)); }
	  DONE(); }
	{ ev_uint64_t v = 0xdeadbeef; FRESH(); rc = evtag_decode_int64(&v, eb);
	  fputs(",\"di64\":", out);
	  if (rc < 0) put_fail(); else { fputs("{\"ok\":true,\"v\":", out); put_digits(v, 4); fprintf(out, ",\"rem\":%zu}", evbuffer_get_length(eb)); }
	  DONE(); }
	{ ev_uint32_t v = 0xdeadbeef; FRESH(); rc = evtag_payload_length(eb, &v);
	  fputs(",\"plen\":", out);
	  if (rc < 0) put_fail(); else { fputs("{\"ok\":true,\"v\":", out); put_digits(v, 4); fputc('}', out); }
	  if (evbuffer_get_length(eb) != n) { fclose(out); abort(); }	/* peeking never consumes */
	  DONE(); }
	{ ev_uint32_t v = 0xdeadbeef; FRESH(); rc = evtag_peek_length(eb, &v);
	  if (rc < 0) fputs(",\"tot\":-1", out); else fprintf(out, ",\"tot\":%u", v);
	  DONE(); }
	{ ev_uint32_t tag = 0xdeadbeef; FRESH(); rc = evtag_unmarshal_header(eb, &tag);
	  fputs(",\"hdr\":", out);
	  if (rc < 0) put_fail(); else { fputs("{\"ok\":true,\"tag\":", out); put_digits(tag, 7); fprintf(out, ",\"rc\":%d,\"rem\":%zu}", rc, evbuffer_get_length(eb)); }
	  DONE(); }
	{ FRESH(); rc = evtag_consume(eb);
	  fputs(",\"cons\":", out);
	  if (rc < 0) put_fail(); else fprintf(out, "{\"ok\":true,\"rem\":%zu}", evbuffer_get_length(eb));
	  DONE(); }
#define TYPED(name, k, need, fix) do { FRESH(); fprintf(out, ",\"%s\":", name); typed_unmarshal(eb, k, need, fix, 1); DONE(); } while (0)
	TYPED("raw", "raw", 0, 0);
	TYPED("int0", "int", 0, 0); TYPED("int15", "int", 15, 0);
	TYPED("i640", "i64", 0, 0); TYPED("i6415", "i64", 15, 0);
	TYPED("str0", "str", 0, 0); TYPED("str128", "str", 128, 0);
	TYPED("tv0", "tv", 0, 0);
	TYPED("fix0", "fix", 0, 0); TYPED("fix1", "fix", 0, 1); TYPED("fix15", "fix", 0, 15);
	fputc('}', out);
	free(b);
}
static void op_tagdec(const jval *c)
{
	size_t n;
	unsigned char *b = get_bytes(c, "b", &n);
	fputc('{', out);
	over_splits(b, n, c, dec_all, "r");
	fputc('}', out);
	free(b);
}


/* ---- C41: ASCII helpers -------------------------------------------------- */
static int sgn(int x) { return x < 0 ? -1 : x > 0 ? 1 : 0; }
/* snprintf into an exact-size heap block of n bytes; prints {"ret":r,"out":bytes | [-1] untouched | [-2] unterminated} */
static void put_snp_result(int r, const char *buf, size_t n)
{
	fprintf(out, "{\"ret\":%d,\"out\":", r);
	if (n == 0) fputs("[-1]", out);
	else if (!memchr(buf, 0, n)) fputs("[-2]", out);
	else put_cstr(buf);
	fputc('}', out);
}
static void snp_fmt(int k, size_t n)
{
	char *buf = malloc(n ? n : 1);
	int r;
	memset(buf, 0xAA, n ? n : 1);
	switch (k) {
	case 0: r = evutil_snprintf(buf, n, "%d", -42); break;
	case 1: r = evutil_snprintf(buf, n, "%x-%s", 255, "ab"); break;
	case 2: r = evutil_snprintf(buf, n, "%05u", 42u); break;
	case 3: r = evutil_snprintf(buf, n, "%c%%", 'z'); break;
	default: r = evutil_snprintf(buf, n, "%s", ""); break;
	}
	put_snp_result(r, buf, n);
	free(buf);
}
static void op_ctab(const jval *c)
{
	int i, k;
	static const size_t fmtlen[5] = { 3, 5, 5, 2, 0 };
	(void)c;
#define TAB(name, fn) do { fprintf(out, "\"%s\":[", name); for (i = 0; i < 256; i++) fprintf(out, "%s%d", i ? "," : "", (int)(unsigned char)fn((char)i)); fputs("],", out); } while (0)
#define PRED(name, fn) do { fprintf(out, "\"%s\":[", name); for (i = 0; i < 256; i++) fprintf(out, "%s%d", i ? "," : "", fn((char)i)); fputs("],", out); } while (0)
	fputc('{', out);
	PRED("alpha", EVUTIL_ISALPHA_); PRED("alnum", EVUTIL_ISALNUM_); PRED("space", EVUTIL_ISSPACE_);
	PRED("digit", EVUTIL_ISDIGIT_); PRED("xdigit", EVUTIL_ISXDIGIT_); PRED("print", EVUTIL_ISPRINT_);
	PRED("lower", EVUTIL_ISLOWER_); PRED("upper", EVUTIL_ISUPPER_);
	TAB("tolower", EVUTIL_TOLOWER_); TAB("toupper", EVUTIL_TOUPPER_);
	fputs("\"fmt\":[", out);
	for (k = 0; k < 5; k++) {
		size_t n;
		fprintf(out, "%s[", k ? "," : "");
		for (n = 0; n <= fmtlen[k] + 2; n++) { if (n) fputc(',', out); snp_fmt(k, n); }
		fputc(']', out);
	}
	fputs("]}", out);
}
static void op_str(const jval *c)
{
	char *a = get_cstr(c, "a"), *b = get_cstr(c, "b");
	size_t la = strlen(a), n;
	const char *hit;
	char *t;
	fprintf(out, "{\"cmp\":%d,\"ncmp\":[", sgn(evutil_ascii_strcasecmp(a, b)));
	for (n = 0; n < 5; n++) fprintf(out, "%s%d", n ? "," : "", sgn(evutil_ascii_strncasecmp(a, b, n)));
	hit = evutil_ascii_strcasestr(a, b);
	fprintf(out, "],\"str\":%d,\"rtrim\":", hit ? (int)(hit - a) : -1);
	t = malloc(la + 1); memcpy(t, a, la + 1);
	evutil_rtrim_lws_(t);
	put_cstr(t);
	free(t);
	fputs(",\"snp\":[", out);
	for (n = 0; n <= la + 2; n++) {
		char *buf = malloc(n ? n : 1);
		int r;
		memset(buf, 0xAA, n ? n : 1);
		r = evutil_snprintf(buf, n, "%s", a);
		if (n) fputc(',', out);
		put_snp_result(r, buf, n);
		free(buf);
	}
	fputs("]}", out);
	free(a); free(b);
}
/* socket address from {"f":4|6,"addr":[bytes],"port":p}, in an exact-size heap block */
static struct sockaddr *mk_sockaddr(const jval *a, int *len)
{
	size_t n;
	unsigned char *ab = get_bytes(a, "addr", &n);
	struct sockaddr *sa;
	if (j_int(a, "f", 4) == 4) {
		struct sockaddr_in *sin = calloc(1, sizeof(*sin));
		sin->sin_family = AF_INET;
		memcpy(&sin->sin_addr, ab, 4);
		sin->sin_port = htons((unsigned short)j_int(a, "port", 0));
		sa = (struct sockaddr *)sin; *len = sizeof(*sin);
	} else {
		struct sockaddr_in6 *sin6 = calloc(1, sizeof(*sin6));
		sin6->sin6_family = AF_INET6;
		memcpy(&sin6->sin6_addr, ab, 16);
		sin6->sin6_port = htons((unsigned short)j_int(a, "port", 0));
		sa = (struct sockaddr *)sin6; *len = sizeof(*sin6);
	}
	free(ab);
	return sa;
}
static void op_sacmp(const jval *c)
{
	const jval *as = j_get(c, "addrs");
	size_t n = as ? as->n : 0, i, j;
	struct sockaddr **sa = calloc(n ? n : 1, sizeof(*sa));
	int len, wp;
	for (i = 0; i < n; i++) sa[i] = mk_sockaddr(as->items[i], &len);
	fputc('{', out);
	for (wp = 0; wp < 2; wp++) {
		fprintf(out, "%s\"m%d\":[", wp ? "," : "", wp);
		for (i = 0; i < n; i++) {
			fprintf(out, "%s[", i ? "," : "");
			for (j = 0; j < n; j++) fprintf(out, "%s%d", j ? "," : "", sgn(evutil_sockaddr_cmp(sa[i], sa[j], wp)));
			fputc(']', out);
		}
		fputc(']', out);
	}
	fputc('}', out);
	for (i = 0; i < n; i++) free(sa[i]);
	free(sa);
}


/* ---- C40: textual addresses ---------------------------------------------- */
static void op_pton(const jval *c)
{
	int af = j_int(c, "af", 4) == 4 ? AF_INET : AF_INET6;
	size_t alen = af == AF_INET ? 4 : 16;
	char *t = get_cstr(c, "t");
	unsigned char *a = malloc(alen);	/* exact-size destination */
	unsigned char pa[16];
	int r, pr;
	memset(a, 0xAA, alen);
	r = evutil_inet_pton(af, t, a);
	fprintf(out, "{\"le\":{\"rc\":%d,\"a\":", r);
	if (r == 1) put_bytes(a, alen); else fputs("[]", out);
	pr = inet_pton(af, t, pa);
	fprintf(out, "},\"pl\":{\"rc\":%d,\"a\":", pr);
	if (pr == 1) put_bytes(pa, alen); else fputs("[]", out);
	fputs("}}", out);
	free(a); free(t);
}
static void op_ntop(const jval *c)
{
	int af = j_int(c, "af", 4) == 4 ? AF_INET : AF_INET6;
	size_t alen, maxlen = af == AF_INET ? 17 : 47, n;
	unsigned char *a = get_bytes(c, "a", &alen);
	char full[64], pl[64];
	const char *r = evutil_inet_ntop(af, a, full, sizeof(full));
	unsigned char back[16];
	int ports[3] = { 1, 80, 65535 }, k, rt = 1;
	fputs("{\"full\":", out); put_cstr(r);
	fputs(",\"pl\":", out); put_cstr(inet_ntop(af, a, pl, sizeof(pl)));
	fputs(",\"back\":", out);
	if (r && inet_pton(af, r, back) == 1) put_bytes(back, alen); else fputs("null", out);
	fputs(",\"lens\":[", out);
	for (n = 0; n <= maxlen; n++) {
		char *buf = malloc(n ? n : 1);
		const char *q;
		memset(buf, 0xAA, n ? n : 1);
		q = evutil_inet_ntop(af, a, buf, n);
		if (n) fputc(',', out);
		if (!q) fputs("null", out);
		else if (q != buf || !memchr(buf, 0, n)) fputs("[-2]", out);
		else put_cstr(buf);
		free(buf);
	}
	fputs("],\"sprt\":", out);
	/* format with a non-zero port, parse back: same family, address and port */
	for (k = 0; k < 3; k++) {
		struct sockaddr_storage ss, ss2;
		char txt[128];
		int l2 = sizeof(ss2);
		memset(&ss, 0, sizeof(ss)); memset(&ss2, 0, sizeof(ss2));
		if (af == AF_INET) {
			struct sockaddr_in *sin = (struct sockaddr_in *)&ss;
			sin->sin_family = AF_INET; memcpy(&sin->sin_addr, a, 4); sin->sin_port = htons(ports[k]);
		} else {
			struct sockaddr_in6 *sin6 = (struct sockaddr_in6 *)&ss;
			sin6->sin6_family = AF_INET6; memcpy(&sin6->sin6_addr, a, 16); sin6->sin6_port = htons(ports[k]);
		}
		evutil_format_sockaddr_port_((struct sockaddr *)&ss, txt, sizeof(txt));
		if (evutil_parse_sockaddr_port(txt, (struct sockaddr *)&ss2, &l2) != 0 ||
		    evutil_sockaddr_cmp((struct sockaddr *)&ss, (struct sockaddr *)&ss2, 1) != 0 ||
		    ss2.ss_family != af)
			rt = 0;
	}
	fprintf(out, "%d}", rt);
	free(a);
}
static void op_sp(const jval *c)
{
	char *t = get_cstr(c, "t");
	struct sockaddr_storage ss;
	int len = sizeof(ss), r;
	memset(&ss, 0, sizeof(ss));
	r = evutil_parse_sockaddr_port(t, (struct sockaddr *)&ss, &len);
	if (r != 0) fputs("{\"st\":\"reject\"}", out);
	else if (ss.ss_family == AF_INET) {
		struct sockaddr_in *sin = (struct sockaddr_in *)&ss;
		fputs("{\"st\":\"ok\",\"f\":4,\"a\":", out); put_bytes(&sin->sin_addr, 4);
		fprintf(out, ",\"port\":%d,\"len\":%d}", ntohs(sin->sin_port), len == (int)sizeof(*sin));
	} else {
		struct sockaddr_in6 *sin6 = (struct sockaddr_in6 *)&ss;
		fputs("{\"st\":\"ok\",\"f\":6,\"a\":", out); put_bytes(&sin6->sin6_addr, 16);
		fprintf(out, ",\"port\":%d,\"len\":%d}", ntohs(sin6->sin6_port), len == (int)sizeof(*sin6));
	}
	free(t);
}

/* ---- dispatch ---------------------------------------------------------- */
static void run_case(const jval *c)
{
	const char *op = j_str(c, "op", "");
	if (!strcmp(op, "esc")) op_esc(c);
	else if (!strcmp(op, "query")) op_query(c);
	else if (!strcmp(op, "uri")) op_uri(c);
	else if (!strcmp(op, "uriset")) op_uriset(c);
	else if (!strcmp(op, "tagrt")) op_tagrt(c);
	else if (!strcmp(op, "ctab")) op_ctab(c);
	else if (!strcmp(op, "pton")) op_pton(c);
	else if (!strcmp(op, "ntop")) op_ntop(c);
	else if (!strcmp(op, "sp")) op_sp(c);
	else if (!strcmp(op, "str")) op_str(c);
	else if (!strcmp(op, "sacmp")) op_sacmp(c);
	else if (!strcmp(op, "tagdec")) op_tagdec(c);
	else fprintf(out, "{\"err\":\"unknown op\"}");
}

int main(void)
{
	char *line;
	event_set_log_callback(nolog);
	while ((line = j_readline(stdin)) != NULL) {
		char *mem = NULL;
		size_t memlen = 0;
		jval *c;
		if (!line[0]) { free(line); continue; }
		c = j_parse(line);
		out = open_memstream(&mem, &memlen);
		run_case(c);
		fclose(out);
		fwrite(mem, 1, memlen, stdout);
		fputc('\n', stdout);
		fflush(stdout);
		free(mem);
		j_free_all();
		free(line);
	}
	return 0;
}
