/* Driver for the pure-function modules (binding G):
 *   specs/Escape.tla (C29), specs/Uri.tla (C28), specs/Evtag.tla (C42),
 *   specs/Ascii.tla (C41), specs/Inet.tla (C40).
 * stdin: one case per line {"op":"<name>", ...arguments...}; byte strings are JSON
 * arrays of integers 0..255.  stdout: one line per case with what the real
 * libevent function returned.  No oracle logic here: the expected values come
 * from the TLA+ modules and are compared by checks/util_common.py.
 * Every input is copied into a heap block of exactly its size so that ASan
 * reports any read or write outside it.
 */
#include <event2/event.h>
#include <event2/buffer.h>
#include <event2/http.h>
#include <event2/keyvalq_struct.h>
#include <event2/tag.h>
#include <event2/util.h>
#include "util-internal.h"
#include <sys/queue.h>
#include <sys/socket.h>
#include <netinet/in.h>
#include <arpa/inet.h>
#include <errno.h>
#include <stdint.h>
#include "mjson.h"

static FILE *out;
static void nolog(int sev, const char *msg) { (void)sev; (void)msg; }

/* ---- helpers ---------------------------------------------------------- */
/* bytes of an int array, in an exact-size heap block (n may be 0) */
static unsigned char *arr_bytes(const jval *a, size_t *n)
{
	size_t i;
	unsigned char *b;
	*n = (a && a->t == J_ARR) ? a->n : 0;
	b = malloc(*n ? *n : 1);
	for (i = 0; i < *n; i++) b[i] = (unsigned char)a->items[i]->i;
	return b;
}
static unsigned char *get_bytes(const jval *o, const char *k, size_t *n) { return arr_bytes(j_get(o, k), n); }
/* C string (exact-size block of n+1 bytes); NULL when the key is absent or JSON null */
static char *arr_cstr(const jval *a)
{
	size_t i, n;
	char *b;
	if (!a || a->t != J_ARR) return NULL;
	n = a->n;
	b = malloc(n + 1);
	for (i = 0; i < n; i++) b[i] = (char)a->items[i]->i;
	b[n] = 0;
	return b;
}
static char *get_cstr(const jval *o, const char *k) { return arr_cstr(j_get(o, k)); }
static void put_bytes(const void *p, size_t n)
{
	size_t i;
	const unsigned char *b = p;
	fputc('[', out);
	for (i = 0; i < n; i++) fprintf(out, "%s%u", i ? "," : "", b[i]);
	fputc(']', out);
}
static void put_cstr(const char *s)
{
	if (!s) fputs("null", out);
	else put_bytes(s, strlen(s));
}

/* ---- C29: escaping ----------------------------------------------------- */
static void put_decoded(const char *x, int plus)
{
	size_t sz = (size_t)-1;
	char *d = x ? evhttp_uridecode(x, plus, &sz) : NULL;
	if (!d) { fputs("null", out); return; }
	/* the result must be NUL-terminated at size_out */
	fprintf(out, "{\"b\":");
	put_bytes(d, sz);
	fprintf(out, ",\"z\":%d}", d[sz] == 0);
	free(d);
}
static void op_esc(const jval *c)
{
	size_t n;
	unsigned char *in = get_bytes(c, "i", &n);
	int nul = (int)j_int(c, "nul", 0);
	char *e0 = evhttp_uriencode((char *)in, (ev_ssize_t)n, 0);
	char *e1 = evhttp_uriencode((char *)in, (ev_ssize_t)n, 1);
	fprintf(out, "{\"e0\":"); put_cstr(e0);
	fprintf(out, ",\"e1\":"); put_cstr(e1);
	/* decoding what the real encoder produced */
	fprintf(out, ",\"rt00\":"); put_decoded(e0, 0);
	fprintf(out, ",\"rt11\":"); put_decoded(e1, 1);
	fprintf(out, ",\"rt01\":"); put_decoded(e0, 1);
	if (!nul) {
		char *s = get_cstr(c, "i");
		char *e0n = evhttp_uriencode(s, -1, 0);
		char *e1n = evhttp_uriencode(s, -1, 1);
		char *e0d = evhttp_encode_uri(s);
		char *h = evhttp_htmlescape(s);
		fprintf(out, ",\"e0n\":"); put_cstr(e0n);
		fprintf(out, ",\"e1n\":"); put_cstr(e1n);
		fprintf(out, ",\"e0d\":"); put_cstr(e0d);
		fprintf(out, ",\"d0\":"); put_decoded(s, 0);
		fprintf(out, ",\"d1\":"); put_decoded(s, 1);
		fprintf(out, ",\"h\":"); put_cstr(h);
		free(e0n); free(e1n); free(e0d); free(h); free(s);
	}
	fputc('}', out);
	free(e0); free(e1); free(in);
}

static void put_kvq(int rc, struct evkeyvalq *q)
{
	struct evkeyval *kv;
	int first = 1;
	fprintf(out, "{\"rc\":%d,\"kv\":[", rc);
	TAILQ_FOREACH(kv, q, next) {
		fprintf(out, "%s[", first ? "" : ",");
		put_cstr(kv->key); fputc(',', out); put_cstr(kv->value);
		fputc(']', out);
		first = 0;
	}
	fputs("]}", out);
}
static void op_query(const jval *c)
{
	char *s = get_cstr(c, "i");
	unsigned f;
	fprintf(out, "{\"q\":[");
	for (f = 0; f < 4; f++) {
		struct evkeyvalq q;
		int rc = evhttp_parse_query_str_flags(s, &q, f);
		if (f) fputc(',', out);
		put_kvq(rc, &q);
		evhttp_clear_headers(&q);
	}
	fputs("],\"plain\":", out);
	{	/* evhttp_parse_query_str = flags 0 */
		struct evkeyvalq q;
		int rc = evhttp_parse_query_str(s, &q);
		put_kvq(rc, &q);
		evhttp_clear_headers(&q);
	}
	fputc('}', out);
	free(s);
}


/* ---- C28: URIs ---------------------------------------------------------- */
/* absent (NULL) components are printed as [-1] like the specification's Null */
static void put_opt(const char *s)
{
	if (!s) fputs("[-1]", out);
	else put_bytes(s, strlen(s));
}
static void put_comps(const struct evhttp_uri *u)
{
	fprintf(out, "{\"s\":"); put_opt(evhttp_uri_get_scheme(u));
	fprintf(out, ",\"u\":"); put_opt(evhttp_uri_get_userinfo(u));
	fprintf(out, ",\"h\":"); put_opt(evhttp_uri_get_host(u));
	fprintf(out, ",\"p\":%d", evhttp_uri_get_port(u));
	fprintf(out, ",\"x\":"); put_opt(evhttp_uri_get_unixsocket(u));
	fprintf(out, ",\"pa\":"); put_opt(evhttp_uri_get_path(u));
	fprintf(out, ",\"q\":"); put_opt(evhttp_uri_get_query(u));
	fprintf(out, ",\"f\":"); put_opt(evhttp_uri_get_fragment(u));
	fputc('}', out);
}
/* join (big buffer, then a heap block of exactly the needed size), print it, re-parse it */
static void put_join_reparse(const struct evhttp_uri *u, unsigned fl)
{
	char big[4096];
	char *j = evhttp_uri_join((struct evhttp_uri *)u, big, sizeof(big));
	fprintf(out, ",\"jn\":%d,\"j\":", j != NULL);
	put_opt(j);
	if (j) {
		size_t n = strlen(j);
		char *exact = malloc(n + 1);
		char *je = evhttp_uri_join((struct evhttp_uri *)u, exact, n + 1);
		struct evhttp_uri *v;
		fprintf(out, ",\"je\":%d", je == exact && !memcmp(exact, big, n + 1));
		free(exact);
		exact = malloc(n + 1);            /* exact-size copy as parser input */
		memcpy(exact, big, n + 1);
		v = evhttp_uri_parse_with_flags(exact, fl);
		fprintf(out, ",\"rp\":");
		if (v) { fputs("{\"st\":\"ok\",\"c\":", out); put_comps(v); fputc('}', out); evhttp_uri_free(v); }
		else fputs("{\"st\":\"reject\"}", out);
		free(exact);
	}
}
static void op_uri(const jval *c)
{
	char *s = get_cstr(c, "i");
	unsigned fl = (unsigned)j_int(c, "fl", 0);
	struct evhttp_uri *u = evhttp_uri_parse_with_flags(s, fl);
	if (!u) {
		fputs("{\"st\":\"reject\"}", out);
	} else {
		fputs("{\"st\":\"ok\",\"c\":", out);
		put_comps(u);
		put_join_reparse(u, fl);
		fputc('}', out);
		evhttp_uri_free(u);
	}
	if (fl == 0) {	/* evhttp_uri_parse is the flags-0 parser */
		struct evhttp_uri *w = evhttp_uri_parse(s);
		if ((w != NULL) != (u != NULL)) { fclose(out); abort(); }
		if (w) evhttp_uri_free(w);
	}
	free(s);
}
static void op_uriset(const jval *c)
{
	unsigned fl = (unsigned)j_int(c, "fl", 0);
	const jval *a = j_get(c, "a");
	struct evhttp_uri *u = evhttp_uri_new();
	char *s = NULL;
	int rc;
	evhttp_uri_set_flags(u, fl);
	fputs("{\"rc\":{", out);
#define SETSTR(key, fn) do { \
		const jval *v = j_get(a, key); \
		s = (v && v->t == J_ARR && !(v->n == 1 && v->items[0]->i == -1)) ? arr_cstr(v) : NULL; \
		rc = fn(u, s); free(s); \
		fprintf(out, "\"%s\":%d,", key, rc); } while (0)
	SETSTR("s", evhttp_uri_set_scheme);
	SETSTR("u", evhttp_uri_set_userinfo);
	SETSTR("h", evhttp_uri_set_host);
	SETSTR("x", evhttp_uri_set_unixsocket);
	rc = evhttp_uri_set_port(u, (int)j_int(a, "p", -1));
	fprintf(out, "\"p\":%d,", rc);
	SETSTR("pa", evhttp_uri_set_path);
	SETSTR("q", evhttp_uri_set_query);
	SETSTR("f", evhttp_uri_set_fragment);
#undef SETSTR
	fputs("\"_\":0},\"c\":", out);
	put_comps(u);
	put_join_reparse(u, fl);
	fputc('}', out);
	evhttp_uri_free(u);
}

/* ---- dispatch ---------------------------------------------------------- */
static void run_case(const jval *c)
{
	const char *op = j_str(c, "op", "");
	if (!strcmp(op, "esc")) op_esc(c);
	else if (!strcmp(op, "query")) op_query(c);
	else if (!strcmp(op, "uri")) op_uri(c);
	else if (!strcmp(op, "uriset")) op_uriset(c);
	else fprintf(out, "{\"err\":\"unknown op\"}");
}

int main(void)
{
	char *line;
	event_set_log_callback(nolog);
	while ((line = j_readline(stdin)) != NULL) {
		char *mem = NULL;
		size_t memlen = 0;
		jval *c;
		if (!line[0]) { free(line); continue; }
		c = j_parse(line);
		out = open_memstream(&mem, &memlen);
		run_case(c);
		fclose(out);
		fwrite(mem, 1, memlen, stdout);
		fputc('\n', stdout);
		fflush(stdout);
		free(mem);
		j_free_all();
		free(line);
	}
	return 0;
}
