/* Driver for specs/ResolvConf.tla and specs/DnsMsg.tla (properties C39 C35 C37 C36 C33).
 * stdin: one scenario per line; "mode" selects what is exercised:
 *   resolvconf  evdns_base_resolv_conf_parse / load_hosts / set_option, then probes through a fake nameserver
 *   server      an evdns server port (UDP or TCP) fed packets by a fake client; callback adds records
 *   query       the resolver's queries captured by a fake nameserver
 *   reply       a pending query answered by the fake nameserver with the scenario's bytes
 * stdout: one JSON line per scenario with the raw observations.  No oracle logic here: packets are
 * reported as hex and judged by the specification (Python glue + TLC).
 */
#include <event2/event.h>
#include <event2/dns.h>
#include <event2/dns_struct.h>
#include <event2/util.h>
#include <event2/listener.h>
#include <sys/socket.h>
#include <sys/stat.h>
#include <netinet/in.h>
#include <arpa/inet.h>
#include <unistd.h>
#include <fcntl.h>
#include <errno.h>
#include <signal.h>
#include "mjson.h"
#include "vclock.h"

static FILE *out;
static struct event_base *base;
static struct evdns_base *dns;

/* ---------------------------------------------------------------- memory accounting */
static long live_allocs;
static void *m_malloc(size_t n) { void *p = malloc(n ? n : 1); if (p) live_allocs++; return p; }
static void *m_realloc(void *p, size_t n) { if (!p) return m_malloc(n); if (!n) { free(p); live_allocs--; return NULL; } return realloc(p, n); }
static void m_free(void *p) { if (p) { live_allocs--; free(p); } }

/* ---------------------------------------------------------------- virtual clock policy */
static int settled, loop_blocked;
static int64_t wait_policy(int64_t tns)
{
	if (!settled) { /* give loopback traffic a moment before time moves */
		struct timespec ts = {0, 400000};
		settled = 1;
		nanosleep(&ts, NULL);
		return 0;
	}
	settled = 0;
	if (tns < 0) { loop_blocked = 1; event_base_loopbreak(base); return 0; } /* nothing will ever happen */
	return tns; /* exact */
}
static void on_wait(int64_t tns, int n) { if (n > 0) settled = 0; }

/* run the loop until *done or nothing can happen any more */
static void pump_until(int *done, int max_iter)
{
	int i, blocked = 0;
	for (i = 0; i < max_iter && !(done && *done); i++) {
		loop_blocked = 0;
		event_base_loop(base, EVLOOP_ONCE);
		if (loop_blocked) {
			struct timespec ts = {0, 400000};
			if (++blocked > 2) break;
			nanosleep(&ts, NULL);
		} else blocked = 0;
	}
}
/* run pending work without moving time */
static void pump_now(int rounds)
{
	int i;
	for (i = 0; i < rounds; i++) {
		struct timespec ts = {0, 200000};
		event_base_loop(base, EVLOOP_NONBLOCK);
		nanosleep(&ts, NULL);
	}
	event_base_loop(base, EVLOOP_NONBLOCK);
}

/* ---------------------------------------------------------------- helpers */
static void put_hex(FILE *f, const unsigned char *b, size_t n)
{
	size_t i;
	fputc('"', f);
	for (i = 0; i < n; i++) fprintf(f, "%02x", b[i]);
	fputc('"', f);
}
static size_t unhex(const char *s, unsigned char *o, size_t cap)
{
	size_t n = 0;
	while (s[0] && s[1] && n < cap) {
		unsigned v;
		sscanf(s, "%2x", &v);
		o[n++] = (unsigned char)v;
		s += 2;
	}
	return n;
}
static void fmt_sockaddr(const struct sockaddr *sa, char *buf, size_t len, int with_port)
{
	char a[128];
	if (sa->sa_family == AF_INET) {
		const struct sockaddr_in *s = (const struct sockaddr_in *)sa;
		evutil_inet_ntop(AF_INET, &s->sin_addr, a, sizeof a);
		if (with_port) snprintf(buf, len, "%s:%d", a, ntohs(s->sin_port)); else snprintf(buf, len, "%s", a);
	} else if (sa->sa_family == AF_INET6) {
		const struct sockaddr_in6 *s = (const struct sockaddr_in6 *)sa;
		evutil_inet_ntop(AF_INET6, &s->sin6_addr, a, sizeof a);
		if (with_port) snprintf(buf, len, "[%s]:%d", a, ntohs(s->sin6_port)); else snprintf(buf, len, "%s", a);
	} else snprintf(buf, len, "af%d", sa->sa_family);
}
static void quiet_log(int sev, const char *msg) { (void)sev; (void)msg; }
static void quiet_dns_log(int w, const char *msg) { (void)w; (void)msg; }

/* ---------------------------------------------------------------- fake nameserver (UDP) */
#define MAXPK 4096
struct pkt { unsigned char *b; int n; };
static struct pkt pk[MAXPK];
static int npk;
static evutil_socket_t ns_fd = -1, ns_tcp_fd = -1;
static struct sockaddr_in ns_addr;
static struct event *ns_ev;
static int ns_mode; /* 0 silent, 1 NXDOMAIN echo, 2 scripted reply */
static unsigned char *ns_reply; static int ns_reply_len; static int ns_reply_patch_id, ns_reply_echo_q, ns_replies_left, ns_reply_id_delta, ns_reply_specid;

static void pk_clear(void) { int i; for (i = 0; i < npk; i++) free(pk[i].b); npk = 0; }
static void pk_add(const unsigned char *b, int n)
{
	if (npk >= MAXPK) return;
	pk[npk].b = malloc(n ? n : 1); memcpy(pk[npk].b, b, n); pk[npk].n = n; npk++;
}
/* the question name of a query as text (labels joined with '.'), raw bytes */
static int q_name(const unsigned char *b, int n, char *o, int cap)
{
	int j = 12, k = 0;
	if (n < 13) return -1;
	while (j < n && b[j]) {
		int l = b[j++];
		if (l > 63 || j + l > n || k + l + 2 > cap) return -1;
		if (k) o[k++] = '.';
		memcpy(o + k, b + j, l); k += l; j += l;
	}
	o[k] = 0;
	return j + 1; /* offset after the name */
}
static void ns_cb(evutil_socket_t fd, short what, void *arg)
{
	unsigned char b[65536];
	struct sockaddr_storage ss;
	for (;;) {
		socklen_t sl = sizeof ss;
		int n = recvfrom(fd, b, sizeof b, 0, (struct sockaddr *)&ss, &sl);
		if (n < 0) break;
		pk_add(b, n);
		if (ns_mode == 1 && n >= 12) {
			char nm[512];
			int e = q_name(b, n, nm, sizeof nm);
			unsigned char r[65536];
			int rl = (e > 0 && e + 4 <= n) ? e + 4 : 12;
			memcpy(r, b, rl);
			r[2] = 0x81 | (b[2] & 0x01); r[3] = 0x83;
			r[4] = 0; r[5] = (rl > 12); r[6] = r[7] = r[8] = r[9] = r[10] = r[11] = 0;
			sendto(fd, r, rl, 0, (struct sockaddr *)&ss, sl);
		} else if (ns_mode == 2 && ns_replies_left > 0 && n >= 12) {
			unsigned char r[65536 + 16];
			int rl = ns_reply_len;
			memcpy(r, ns_reply, rl);
			if (ns_reply_patch_id && rl >= 2) { r[0] = b[0]; r[1] = b[1]; }
			if (ns_reply_id_delta && rl >= 2) { int id = ((r[0] * 256 + r[1]) - ns_reply_specid + (b[0] * 256 + b[1])) & 0xffff; r[0] = id >> 8; r[1] = id & 255; }
			if (ns_reply_echo_q) { /* copy the case of the question name as sent */
				char nm[512]; int e = q_name(b, n, nm, sizeof nm);
				if (e > 0 && e <= rl) memcpy(r + 12, b + 12, e - 12);
			}
			ns_replies_left--;
			sendto(fd, r, rl, 0, (struct sockaddr *)&ss, sl);
		}
	}
}
static int ns_open(void)
{
	socklen_t sl = sizeof ns_addr;
	ns_fd = socket(AF_INET, SOCK_DGRAM, 0);
	memset(&ns_addr, 0, sizeof ns_addr);
	ns_addr.sin_family = AF_INET; ns_addr.sin_addr.s_addr = htonl(0x7f000001);
	if (bind(ns_fd, (struct sockaddr *)&ns_addr, sizeof ns_addr) < 0) return -1;
	getsockname(ns_fd, (struct sockaddr *)&ns_addr, &sl);
	evutil_make_socket_nonblocking(ns_fd);
	ns_ev = event_new(base, ns_fd, EV_READ | EV_PERSIST, ns_cb, NULL);
	event_add(ns_ev, NULL);
	return 0;
}
static void ns_close(void)
{
	if (ns_ev) { event_free(ns_ev); ns_ev = NULL; }
	if (ns_fd >= 0) { close(ns_fd); ns_fd = -1; }
	pk_clear();
}

/* ---------------------------------------------------------------- resolve callbacks */
struct slot { int done, err, type, count, ttl, ncb; char data[4096]; };
static struct slot slots[128];
static void res_cb(int err, char type, int count, int ttl, void *addrs, void *arg)
{
	struct slot *s = arg;
	s->done = 1; s->err = err; s->type = type; s->count = count; s->ttl = ttl; s->ncb++;
}

/* ---------------------------------------------------------------- mode resolvconf */
struct gai { int done, err; char txt[2048]; };
static void gai_cb(int err, struct evutil_addrinfo *res, void *arg)
{
	struct gai *g = arg;
	struct evutil_addrinfo *ai;
	size_t k = 0;
	g->done = 1; g->err = err; g->txt[0] = 0;
	for (ai = res; ai; ai = ai->ai_next) {
		char a[128];
		fmt_sockaddr(ai->ai_addr, a, sizeof a, 0);
		k += snprintf(g->txt + k, sizeof(g->txt) - k, "%s\"%s\"", k ? "," : "", a);
	}
	if (res) evutil_freeaddrinfo(res);
}
static int cmpstr(const void *a, const void *b) { return strcmp(*(char *const *)a, *(char *const *)b); }

static void rc_obs(int r, jval *lookups)
{
	int n = evdns_base_count_nameservers(dns), i;
	char *names[256]; int nn = 0;
	size_t k;
	struct sockaddr_storage ss;
	fprintf(out, "{\"r\":%d,\"n\":%d,\"ns\":[", r, n);
	for (i = 0; i < n && i < 256; i++) {
		char buf[160];
		int l = evdns_base_get_nameserver_addr(dns, i, (struct sockaddr *)&ss, sizeof ss);
		if (l <= 0) snprintf(buf, sizeof buf, "ERR%d", l);
		else fmt_sockaddr((struct sockaddr *)&ss, buf, sizeof buf, 1);
		names[nn++] = strdup(buf);
	}
	qsort(names, nn, sizeof names[0], cmpstr);
	for (i = 0; i < nn; i++) { fprintf(out, "%s\"%s\"", i ? "," : "", names[i]); free(names[i]); }
	fprintf(out, "],\"oob\":%d,\"hosts\":[", evdns_base_get_nameserver_addr(dns, n, (struct sockaddr *)&ss, sizeof ss));
	for (k = 0; lookups && k < lookups->n; k++) {
		struct gai g;
		struct evutil_addrinfo hints;
		struct evdns_getaddrinfo_request *rq;
		memset(&g, 0, sizeof g); memset(&hints, 0, sizeof hints);
		hints.ai_family = PF_UNSPEC; hints.ai_socktype = SOCK_STREAM; hints.ai_protocol = IPPROTO_TCP;
		rq = evdns_getaddrinfo(dns, lookups->items[k]->str, NULL, &hints, gai_cb, &g);
		if (!g.done) {
			if (rq) evdns_getaddrinfo_cancel(rq);
			{ int t; for (t = 0; t < 20 && !g.done; t++) event_base_loop(base, EVLOOP_NONBLOCK); }
			g.txt[0] = 0;
		}
		fprintf(out, "%s[%s]", k ? "," : "", g.txt);
	}
	fprintf(out, "]}");
}

static void lower(char *s) { for (; *s; s++) if (*s >= 'A' && *s <= 'Z') *s |= 0x20; }

static void rc_probe(jval *sc)
{
	jval *pn = j_get(sc, "probes");
	int nin = (int)j_int(sc, "inflight_probe", 70), i, cnt, inflight;
	size_t k;
	struct evdns_request *rq[128];
	evdns_base_clear_nameservers_and_suspend(dns);
	evdns_base_nameserver_sockaddr_add(dns, (struct sockaddr *)&ns_addr, sizeof ns_addr, 0);
	evdns_base_resume(dns);
	/* max-inflight: how many of nin requests reach the wire at once */
	ns_mode = 0; pk_clear();
	if (nin > 128) nin = 128;
	for (i = 0; i < nin; i++) {
		char nm[64];
		snprintf(nm, sizeof nm, "mi%d.probe", i);
		memset(&slots[i], 0, sizeof slots[i]);
		rq[i] = evdns_base_resolve_ipv4(dns, nm, DNS_QUERY_NO_SEARCH, res_cb, &slots[i]);
	}
	pump_now(3);
	{
		char seen[128]; memset(seen, 0, sizeof seen); cnt = 0;
		for (i = 0; i < npk; i++) {
			char nm[512]; int id;
			if (q_name(pk[i].b, pk[i].n, nm, sizeof nm) < 0) continue;
			lower(nm);
			if (sscanf(nm, "mi%d.probe", &id) == 1 && id >= 0 && id < 128 && !seen[id]) { seen[id] = 1; cnt++; }
		}
	}
	for (i = 0; i < nin; i++) if (rq[i] && !slots[i].done) evdns_cancel_request(dns, rq[i]);
	pump_now(2);
	inflight = cnt;
	/* the remaining probes must not queue behind the limit just measured */
	evdns_base_set_option(dns, "max-inflight", "64");
	fprintf(out, ",\"probe\":{\"q\":[");
	/* search list / ndots: names asked while every answer is NXDOMAIN */
	ns_mode = 1;
	for (k = 0; pn && k < pn->n; k++) {
		struct slot *s = &slots[0];
		memset(s, 0, sizeof *s); pk_clear();
		if (!evdns_base_resolve_ipv4(dns, pn->items[k]->str, 0, res_cb, s)) s->done = 1, s->err = -1;
		pump_until(&s->done, 400);
		fprintf(out, "%s{\"err\":%d,\"names\":[", k ? "," : "", s->done ? s->err : -2);
		for (i = 0; i < npk; i++) {
			char nm[512];
			if (q_name(pk[i].b, pk[i].n, nm, sizeof nm) < 0) strcpy(nm, "?");
			lower(nm);
			fprintf(out, "%s", i ? "," : ""); j_put_str(out, nm, strlen(nm));
		}
		fprintf(out, "]}");
	}
	fprintf(out, "]");
	/* 0x20 and EDNS: one long alphabetic name, no search */
	{
		struct slot *s = &slots[0];
		int upper = 0, edns = 0;
		memset(s, 0, sizeof *s); pk_clear();
		if (!evdns_base_resolve_ipv4(dns, "abcdefghijklmnopqrstuvwxyzabcdefghijklmnopqrstuvwx.probe", DNS_QUERY_NO_SEARCH, res_cb, s)) s->done = 1;
		pump_until(&s->done, 400);
		if (npk > 0) {
			char nm[512];
			int e = q_name(pk[0].b, pk[0].n, nm, sizeof nm), ar = pk[0].n >= 12 ? pk[0].b[11] : 0;
			const char *c;
			for (c = nm; *c; c++) if (*c >= 'A' && *c <= 'Z') upper = 1;
			if (e > 0 && ar >= 1 && e + 4 + 11 <= pk[0].n && pk[0].b[e + 4] == 0 && pk[0].b[e + 5] == 0 && pk[0].b[e + 6] == 41)
				edns = pk[0].b[e + 7] * 256 + pk[0].b[e + 8];
			else if (ar) edns = -1;
		}
		fprintf(out, ",\"randcase\":%d,\"edns\":%d,\"nq1\":%d,\"inflight\":%d", upper, edns, npk, inflight);
	}
	/* attempts / timeout against a silent server, in virtual time */
	{
		struct slot *s = &slots[0];
		int64_t t0 = vt_now_ns;
		ns_mode = 0;
		memset(s, 0, sizeof *s); pk_clear();
		if (!evdns_base_resolve_ipv4(dns, "silent.probe", DNS_QUERY_NO_SEARCH, res_cb, s)) s->done = 1, s->err = -1;
		pump_until(&s->done, 6000);
		cnt = 0;
		for (i = 0; i < npk; i++) {
			char nm[512];
			if (q_name(pk[i].b, pk[i].n, nm, sizeof nm) < 0) continue;
			lower(nm);
			if (!strcmp(nm, "silent.probe")) cnt++;
		}
		fprintf(out, ",\"tx\":%d,\"elapsed_ms\":%lld,\"terr\":%d}", cnt, (long long)((vt_now_ns - t0) / 1000000), s->done ? s->err : -2);
	}
}

static int write_file(const char *path, const char *s, size_t n)
{
	FILE *f = fopen(path, "wb");
	if (!f) return -1;
	fwrite(s, 1, n, f);
	fclose(f);
	return 0;
}

static void mode_resolvconf(jval *sc)
{
	jval *h = j_get(sc, "h"), *lookups = j_get(sc, "lookups");
	const char *dir = j_str(sc, "dir", "/verif/out/tmp");
	char path[512], missing[512];
	size_t k;
	snprintf(path, sizeof path, "%s/dnsdrv_%d.conf", dir, (int)getpid());
	snprintf(missing, sizeof missing, "%s/dnsdrv_%d.does-not-exist", dir, (int)getpid());
	dns = evdns_base_new(base, 0);
	fprintf(out, "{\"obs\":[");
	for (k = 0; h && k < h->n; k++) {
		jval *op = h->items[k];
		const char *a = j_str(op, "a", "");
		int r = -99;
		if (!strcmp(a, "conf")) {
			jval *t = j_get(op, "text");
			write_file(path, t ? t->str : "", t ? t->slen : 0);
			r = evdns_base_resolv_conf_parse(dns, (int)j_int(op, "fl", 7), path);
		} else if (!strcmp(a, "confmissing")) {
			r = evdns_base_resolv_conf_parse(dns, (int)j_int(op, "fl", 7), missing);
		} else if (!strcmp(a, "hosts")) {
			jval *t = j_get(op, "text");
			write_file(path, t ? t->str : "", t ? t->slen : 0);
			r = evdns_base_load_hosts(dns, path);
		} else if (!strcmp(a, "hostsnull")) {
			r = evdns_base_load_hosts(dns, NULL);
		} else if (!strcmp(a, "hostsmissing")) {
			r = evdns_base_load_hosts(dns, missing);
		} else if (!strcmp(a, "clearhosts")) {
			evdns_base_clear_host_addresses(dns); r = 0;
		} else if (!strcmp(a, "opt")) {
			r = evdns_base_set_option(dns, j_str(op, "n", ""), j_str(op, "v", ""));
		}
		if (k) fputc(',', out);
		rc_obs(r, lookups);
	}
	fprintf(out, "]");
	if (j_int(sc, "probe", 0)) rc_probe(sc);
	unlink(path);
	evdns_base_free(dns, 0); dns = NULL;
}


/* ---------------------------------------------------------------- mode server (C35 / C37) */
static jval *srv_reply;
static int srv_ncb;
static void srv_cb(struct evdns_server_request *req, void *arg)
{
	int i, err = (int)j_int(srv_reply, "err", 0);
	jval *recs = j_get(srv_reply, "recs");
	size_t k;
	fprintf(out, "%s{\"flags\":%d,\"q\":[", srv_ncb++ ? "," : "", req->flags);
	for (i = 0; i < req->nquestions; i++) {
		struct evdns_server_question *q = req->questions[i];
		fprintf(out, "%s{\"t\":%d,\"c\":%d,\"n\":", i ? "," : "", q->type, q->dns_question_class);
		put_hex(out, (unsigned char *)q->name, strlen(q->name));
		fputc('}', out);
	}
	fprintf(out, "],\"add\":[");
	for (k = 0; recs && k < recs->n; k++) {
		jval *r = recs->items[k];
		int isname = (int)j_int(r, "isname", 0), rr;
		static unsigned char data[70000];
		size_t dl = 0;
		const char *d = j_str(r, "data", "");
		if (!isname) dl = unhex(d, data, sizeof data);
		rr = evdns_server_request_add_reply(req, (int)j_int(r, "sec", 0), j_str(r, "name", ""), (int)j_int(r, "type", 1),
		    (int)j_int(r, "class", 1), (int)j_int(r, "ttl", 0), isname ? -1 : (int)dl, isname, isname ? d : (dl ? (char *)data : NULL));
		fprintf(out, "%s%d", k ? "," : "", rr);
	}
	fprintf(out, "]");
	if (j_int(srv_reply, "drop", 0)) fprintf(out, ",\"r\":%d}", evdns_server_request_drop(req));
	else fprintf(out, ",\"r\":%d}", evdns_server_request_respond(req, err));
}

static void mode_server(jval *sc)
{
	const char *tr = j_str(sc, "tr", "udp");
	struct evdns_server_port *port = NULL;
	struct sockaddr_in sin;
	socklen_t sl = sizeof sin;
	evutil_socket_t cfd = -1;
	static unsigned char buf[1 << 17], rbuf[1 << 18];
	size_t rlen = 0, k;
	int closed = 0, first = 1;
	char *cbs = NULL; size_t cbl = 0;
	FILE *saved = out;
	srv_reply = j_get(sc, "reply"); srv_ncb = 0;
	memset(&sin, 0, sizeof sin); sin.sin_family = AF_INET; sin.sin_addr.s_addr = htonl(0x7f000001);
	out = open_memstream(&cbs, &cbl); /* callback records go here */
	if (!strcmp(tr, "udp")) {
		jval *msgs = j_get(sc, "msgs");
		evutil_socket_t sfd = socket(AF_INET, SOCK_DGRAM, 0);
		bind(sfd, (struct sockaddr *)&sin, sizeof sin); getsockname(sfd, (struct sockaddr *)&sin, &sl);
		evutil_make_socket_nonblocking(sfd);
		port = evdns_add_server_port_with_base(base, sfd, 0, srv_cb, NULL);
		cfd = socket(AF_INET, SOCK_DGRAM, 0);
		connect(cfd, (struct sockaddr *)&sin, sizeof sin);
		evutil_make_socket_nonblocking(cfd);
		fprintf(saved, "{\"resp\":[");
		for (k = 0; msgs && k < msgs->n; k++) {
			size_t n = unhex(msgs->items[k]->str, buf, sizeof buf);
			int r;
			send(cfd, buf, n, 0);
			pump_now(2);
			while ((r = recv(cfd, rbuf, sizeof rbuf, 0)) >= 0) {
				fprintf(saved, "%s", first ? "" : ","); first = 0;
				put_hex(saved, rbuf, r);
			}
		}
		fprintf(saved, "]");
	} else {
		jval *segs = j_get(sc, "segs");
		size_t n = unhex(j_str(sc, "stream", ""), buf, sizeof buf), off = 0, o2;
		struct evconnlistener *lis = evconnlistener_new_bind(base, NULL, NULL, LEV_OPT_CLOSE_ON_FREE | LEV_OPT_REUSEABLE, 16,
		    (struct sockaddr *)&sin, sizeof sin);
		int idle = 0;
		getsockname(evconnlistener_get_fd(lis), (struct sockaddr *)&sin, &sl);
		port = evdns_add_server_port_with_listener(base, lis, 0, srv_cb, NULL);
		cfd = socket(AF_INET, SOCK_STREAM, 0);
		connect(cfd, (struct sockaddr *)&sin, sizeof sin);
		evutil_make_socket_nonblocking(cfd);
		pump_now(2);
		for (k = 0; off < n; k++) {
			size_t seg = (segs && k < segs->n) ? (size_t)segs->items[k]->i : n - off;
			if (seg == 0 || seg > n - off) seg = n - off;
			if (send(cfd, buf + off, seg, MSG_NOSIGNAL) < 0) break;
			off += seg;
			pump_now(1);
		}
		while (idle < 4 && rlen < sizeof rbuf) {
			int r = recv(cfd, rbuf + rlen, sizeof rbuf - rlen, 0);
			if (r > 0) { rlen += r; idle = 0; continue; }
			if (r == 0) { closed = 1; break; }
			if (errno != EAGAIN && errno != EWOULDBLOCK) { closed = 2; break; }
			idle++;
			pump_now(2);
		}
		if (j_int(sc, "half_close", 0)) { shutdown(cfd, SHUT_WR); pump_now(3); }
		fprintf(saved, "{\"resp\":[");
		for (o2 = 0; o2 + 2 <= rlen; ) {
			size_t l = rbuf[o2] * 256 + rbuf[o2 + 1];
			if (o2 + 2 + l > rlen) break;
			fprintf(saved, "%s", first ? "" : ","); first = 0;
			put_hex(saved, rbuf + o2 + 2, l);
			o2 += 2 + l;
		}
		fprintf(saved, "],\"rest\":%d,\"closed\":%d", (int)(rlen - o2), closed);
	}
	fclose(out); out = saved;
	fprintf(out, ",\"cb\":[%s]", cbs ? cbs : "");
	free(cbs);
	if (cfd >= 0) close(cfd);
	pump_now(2);
	if (port) evdns_close_server_port(port);
	pump_now(1);
}

/* ---------------------------------------------------------------- modes query (C36) and reply (C33) */
static int ncbrec;
static int64_t issue_ns;
static void rec_cb(int err, char type, int count, int ttl, void *addrs, void *arg)
{
	struct slot *s = arg;
	int i;
	fprintf(out, "%s{\"err\":%d,\"type\":%d,\"count\":%d,\"ttl\":%d,\"at_ms\":%lld", ncbrec++ ? "," : "", err, type, count, ttl,
	    (long long)((vt_now_ns - issue_ns) / 1000000));
	if (err == 0 && addrs) {
		if (type == DNS_IPv4_A || type == DNS_IPv6_AAAA) {
			int w = type == DNS_IPv4_A ? 4 : 16;
			fprintf(out, ",\"addrs\":[");
			for (i = 0; i < count; i++) { if (i) fputc(',', out); put_hex(out, (unsigned char *)addrs + i * w, w); }
			fprintf(out, "]");
		} else if (type == DNS_PTR) {
			const char *n = *(char **)addrs;
			fprintf(out, ",\"ptr\":"); put_hex(out, (const unsigned char *)n, strlen(n));
		} else if (type == DNS_CNAME) {
			fprintf(out, ",\"cname\":"); put_hex(out, (const unsigned char *)addrs, strlen((char *)addrs));
		}
	}
	fputc('}', out);
	if (type != DNS_CNAME) s->done = 1; /* a CNAME callback follows the address callback */
	s->ncb++;
}

static struct evdns_request *issue(jval *sc, struct slot *s)
{
	const char *type = j_str(sc, "type", "a");
	int flags = (int)j_int(sc, "flags", 0);
	static unsigned char nm[1024];
	size_t n = unhex(j_str(sc, "name_hex", ""), nm, sizeof nm - 1);
	nm[n] = 0;
	issue_ns = vt_now_ns;
	if (!strcmp(type, "a")) return evdns_base_resolve_ipv4(dns, (char *)nm, flags, rec_cb, s);
	if (!strcmp(type, "aaaa")) return evdns_base_resolve_ipv6(dns, (char *)nm, flags, rec_cb, s);
	if (!strcmp(type, "ptr4")) { struct in_addr a; evutil_inet_pton(AF_INET, (char *)nm, &a); return evdns_base_resolve_reverse(dns, &a, flags, rec_cb, s); }
	if (!strcmp(type, "ptr6")) { struct in6_addr a; evutil_inet_pton(AF_INET6, (char *)nm, &a); return evdns_base_resolve_reverse_ipv6(dns, &a, flags, rec_cb, s); }
	return NULL;
}

static void mode_client(jval *sc, int scripted)
{
	jval *opts = j_get(sc, "opts"), *search = j_get(sc, "search");
	struct slot *s = &slots[0];
	struct evdns_request *rq;
	size_t k;
	int i;
	char *cbs = NULL; size_t cbl = 0;
	FILE *saved = out;
	static unsigned char rep[70000];
	dns = evdns_base_new(base, 0);
	fprintf(out, "{\"optr\":[");
	for (k = 0; opts && k < opts->n; k++)
		fprintf(out, "%s%d", k ? "," : "", evdns_base_set_option(dns, opts->items[k]->items[0]->str, opts->items[k]->items[1]->str));
	fprintf(out, "]");
	if (j_get(sc, "conf")) { /* search list / ndots through a resolv.conf (documented order) */
		char path[512];
		jval *t = j_get(sc, "conf");
		snprintf(path, sizeof path, "%s/dnsdrv_%d.qconf", j_str(sc, "dir", "/verif/out/tmp"), (int)getpid());
		write_file(path, t->str, t->slen);
		evdns_base_resolv_conf_parse(dns, DNS_OPTION_SEARCH | DNS_OPTION_MISC, path);
		unlink(path);
	}
	for (k = 0; search && k < search->n; k++) evdns_base_search_add(dns, search->items[k]->str);
	if (j_get(sc, "ndots")) evdns_base_search_ndots_set(dns, (int)j_int(sc, "ndots", 1));
	evdns_base_nameserver_sockaddr_add(dns, (struct sockaddr *)&ns_addr, sizeof ns_addr, 0);
	if (scripted) {
		ns_mode = 2; ns_reply = rep; ns_reply_len = (int)unhex(j_str(sc, "reply", ""), rep, sizeof rep);
		ns_reply_id_delta = 1; ns_reply_specid = (int)j_int(sc, "specid", 4660); ns_replies_left = (int)j_int(sc, "nreplies", 1);
	} else ns_mode = 1;
	memset(s, 0, sizeof *s); pk_clear(); ncbrec = 0;
	out = open_memstream(&cbs, &cbl);
	rq = issue(sc, s);
	if (rq) { pump_until(&s->done, 3000); pump_now(1); }
	fclose(out); out = saved;
	fprintf(out, ",\"ret\":%d,\"done\":%d,\"cb\":[%s],\"pkts\":[", rq != NULL, s->done, cbs ? cbs : "");
	free(cbs);
	for (i = 0; i < npk; i++) { if (i) fputc(',', out); put_hex(out, pk[i].b, pk[i].n); }
	fprintf(out, "]");
	evdns_base_free(dns, 0); dns = NULL;
	pump_now(1);
}


/* ================================================================ scripted nameservers (C34 / C38)
 * Up to 2 fake nameservers, each a UDP socket and a TCP listener on the same loopback port.  A rule table
 * (from the scenario) says what happens to the k-th query for (name, type): reply with the given bytes
 * (id and question patched from the query), drop, delay, or over TCP close after some bytes.  Every
 * query / answer / callback / user action is appended to an event log with the virtual time. */
#define FNS_MAX 2
struct fconn { int used; evutil_socket_t fd; struct event *ev; unsigned char buf[70000]; size_t n; int srv; };
static struct { evutil_socket_t ufd, tfd; struct event *uev, *tev; struct sockaddr_in addr; } fns[FNS_MAX];
static struct fconn fconns[16];
static int fns_n;
static jval *fns_rules;          /* current rule table */
static struct { char n[300]; int t; int cnt; } fns_seen[256];
static int fns_nseen, fns_nq;
static char *elog; static size_t elog_len; static FILE *elogf; static int elog_first;
static void (*fns_on_query)(int nq);
static void elog_open(void) { elogf = open_memstream(&elog, &elog_len); elog_first = 1; }
#define ELOG(...) do { fprintf(elogf, "%s{\"ms\":%lld,", elog_first ? "" : ",", (long long)((vt_now_ns - 1000LL * 1000000000LL) / 1000000)); elog_first = 0; fprintf(elogf, __VA_ARGS__); fputc('}', elogf); } while (0)

struct delayed { struct event *ev; int srv; unsigned char *b; int n; struct sockaddr_storage to; socklen_t tl; };
static struct delayed *dl_list[256]; static int dl_n;
static void delayed_cb(evutil_socket_t fd, short what, void *arg)
{
	struct delayed *d = arg;
	sendto(fns[d->srv].ufd, d->b, d->n, 0, (struct sockaddr *)&d->to, d->tl);
}
static void delayed_free_all(void)
{
	int i;
	for (i = 0; i < dl_n; i++) { event_free(dl_list[i]->ev); free(dl_list[i]->b); free(dl_list[i]); }
	dl_n = 0;
}

ssize_t __real_sendto(int fd, const void *buf, size_t n, int flags, const struct sockaddr *to, socklen_t tl);
static int fns_log_at_send;      /* UDP queries are logged when the resolver sends them (sendto is wrapped), not when the nameserver reads them */
static struct { char n[300]; int t; int cnt; } fns_sent[256];
static int fns_nsent;
static int fns_count_sent(const char *name, int t)
{
	int i;
	for (i = 0; i < fns_nsent; i++) if (fns_sent[i].t == t && !strcmp(fns_sent[i].n, name)) return ++fns_sent[i].cnt;
	if (fns_nsent < 256) { snprintf(fns_sent[fns_nsent].n, sizeof fns_sent[0].n, "%s", name); fns_sent[fns_nsent].t = t; fns_sent[fns_nsent].cnt = 1; fns_nsent++; }
	return 1;
}
/* replies held back until the scenario releases them (to place an answer exactly at a timer deadline) */
static struct { int srv; unsigned char *b; int n; struct sockaddr_storage to; socklen_t tl; } fns_held[16];
static int fns_nheld;
static void fns_release(void)
{
	int i;
	for (i = 0; i < fns_nheld; i++) {
		__real_sendto(fns[fns_held[i].srv].ufd, fns_held[i].b, fns_held[i].n, 0, (struct sockaddr *)&fns_held[i].to, fns_held[i].tl);
		free(fns_held[i].b);
	}
	fns_nheld = 0;
}
static int fns_count(const char *name, int t)
{
	int i;
	for (i = 0; i < fns_nseen; i++) if (fns_seen[i].t == t && !strcmp(fns_seen[i].n, name)) return ++fns_seen[i].cnt;
	if (fns_nseen < 256) { snprintf(fns_seen[fns_nseen].n, sizeof fns_seen[0].n, "%s", name); fns_seen[fns_nseen].t = t; fns_seen[fns_nseen].cnt = 1; fns_nseen++; }
	return 1;
}
static jval *fns_rule(const char *name, int t, int k, int srv, const char *tr)
{
	size_t i;
	for (i = 0; fns_rules && i < fns_rules->n; i++) {
		jval *r = fns_rules->items[i];
		const char *rt = j_str(r, "tr", "");
		if (strcmp(j_str(r, "n", ""), name)) continue;
		if (j_int(r, "t", 0) && j_int(r, "t", 0) != t) continue;
		if (j_int(r, "k", 0) && j_int(r, "k", 0) != k) continue;
		if (j_int(r, "ns", 0) && j_int(r, "ns", 0) != srv + 1) continue;
		if (rt[0] && strcmp(rt, tr)) continue;
		return r;
	}
	return NULL;
}
/* handle one query; returns the reply length placed in rep (0 = no reply), *delay_ms and *close_at from the rule */
static int fns_handle(int srv, const char *tr, const unsigned char *b, int n, unsigned char *rep, int *delay_ms, int *close_at)
{
	char nm[512]; int e, t, k, rl = 0;
	jval *r;
	*delay_ms = 0; *close_at = -1;
	if (n < 12 || (e = q_name(b, n, nm, sizeof nm)) < 0 || e + 4 > n) { ELOG("\"e\":\"junk\",\"ns\":%d", srv + 1); return 0; }
	lower(nm);
	t = b[e] * 256 + b[e + 1];
	k = fns_count(nm, t);
	r = fns_rule(nm, t, k, srv, tr);
	if (!(fns_log_at_send && !strcmp(tr, "udp")))
		ELOG("\"e\":\"q\",\"ns\":%d,\"tr\":\"%s\",\"id\":%d,\"n\":\"%s\",\"t\":%d,\"k\":%d,\"fate\":\"%s\"", srv + 1, tr, b[0] * 256 + b[1], nm, t, k,
		    r ? j_str(r, "fate", "?") : "norule");
	if (r) {
		const char *hex = j_str(r, "reply", "");
		if (hex[0]) {
			rl = (int)unhex(hex, rep, 66000);
			if (rl >= 2) { rep[0] = b[0]; rep[1] = b[1]; }
			if (j_int(r, "wrongid", 0)) rep[1] ^= 0x55;
			if (rl >= e && !j_int(r, "noecho", 0)) memcpy(rep + 12, b + 12, e - 12);   /* question name with the case as sent */
			*delay_ms = (int)j_int(r, "delay_ms", 0);
			*close_at = (int)j_int(r, "close_at", -1);
			ELOG("\"e\":\"a\",\"ns\":%d,\"n\":\"%s\",\"t\":%d,\"k\":%d", srv + 1, nm, t, k);
		}
	}
	fns_nq++;
	return rl;
}
ssize_t __wrap_sendto(int fd, const void *buf, size_t n, int flags, const struct sockaddr *to, socklen_t tl)
{
	if (fns_log_at_send && elogf && to && to->sa_family == AF_INET && n >= 12) {
		const struct sockaddr_in *sin = (const struct sockaddr_in *)to;
		int i;
		for (i = 0; i < fns_n; i++) {
			if (sin->sin_port == fns[i].addr.sin_port && fd != fns[i].ufd) {
				const unsigned char *b = buf;
				char nm[512]; int e = q_name(b, (int)n, nm, sizeof nm);
				if (e > 0 && e + 4 <= (int)n) {
					int t = b[e] * 256 + b[e + 1], k;
					jval *r;
					lower(nm);
					k = fns_count_sent(nm, t);
					r = fns_rule(nm, t, k, i, "udp");
					ELOG("\"e\":\"q\",\"ns\":%d,\"tr\":\"udp\",\"id\":%d,\"n\":\"%s\",\"t\":%d,\"k\":%d,\"fate\":\"%s\"", i + 1, b[0] * 256 + b[1], nm, t, k,
					    r ? j_str(r, "fate", "?") : "norule");
				}
				break;
			}
		}
	}
	return __real_sendto(fd, buf, n, flags, to, tl);
}
static void fns_udp_cb(evutil_socket_t fd, short what, void *arg)
{
	int srv = (int)(intptr_t)arg;
	static unsigned char b[65536], rep[66000];
	struct sockaddr_storage ss;
	for (;;) {
		socklen_t sl = sizeof ss;
		int n = recvfrom(fd, b, sizeof b, 0, (struct sockaddr *)&ss, &sl), rl, dms, cl;
		if (n < 0) break;
		rl = fns_handle(srv, "udp", b, n, rep, &dms, &cl);
		if (rl > 0 && cl == -2 && fns_nheld < 16) {           /* close_at -2: hold the reply until fns_release() */
			fns_held[fns_nheld].srv = srv; fns_held[fns_nheld].b = malloc(rl); memcpy(fns_held[fns_nheld].b, rep, rl);
			fns_held[fns_nheld].n = rl; memcpy(&fns_held[fns_nheld].to, &ss, sl); fns_held[fns_nheld].tl = sl; fns_nheld++;
		} else if (rl > 0 && dms > 0 && dl_n < 256) {
			struct delayed *d = calloc(1, sizeof *d);
			struct timeval tv = { dms / 1000, (dms % 1000) * 1000 };
			d->srv = srv; d->b = malloc(rl); memcpy(d->b, rep, rl); d->n = rl; memcpy(&d->to, &ss, sl); d->tl = sl;
			d->ev = evtimer_new(base, delayed_cb, d);
			evtimer_add(d->ev, &tv);
			dl_list[dl_n++] = d;
		} else if (rl > 0) sendto(fd, rep, rl, 0, (struct sockaddr *)&ss, sl);
		if (fns_on_query) fns_on_query(fns_nq);
		if (!base) return;
	}
}
static void fconn_close(struct fconn *c) { if (c->used) { event_free(c->ev); close(c->fd); c->used = 0; } }
static void fns_tcp_read_cb(evutil_socket_t fd, short what, void *arg)
{
	struct fconn *c = arg;
	static unsigned char rep[66000], fr[66002];
	int r = recv(fd, c->buf + c->n, sizeof c->buf - c->n, 0);
	if (r <= 0) { if (r == 0 || (errno != EAGAIN && errno != EWOULDBLOCK)) fconn_close(c); return; }
	c->n += r;
	while (c->used && c->n >= 2) {
		size_t l = c->buf[0] * 256 + c->buf[1];
		int rl, dms, cl;
		if (c->n < 2 + l) break;
		rl = fns_handle(c->srv, "tcp", c->buf + 2, (int)l, rep, &dms, &cl);
		memmove(c->buf, c->buf + 2 + l, c->n - 2 - l); c->n -= 2 + l;
		if (rl > 0) {
			fr[0] = rl >> 8; fr[1] = rl & 255; memcpy(fr + 2, rep, rl);
			if (cl >= 0) { if (cl > 0) send(fd, fr, cl < rl + 2 ? cl : rl + 2, MSG_NOSIGNAL); fconn_close(c); }
			else send(fd, fr, rl + 2, MSG_NOSIGNAL);
		} else if (cl >= 0) fconn_close(c);
		if (fns_on_query) fns_on_query(fns_nq);
		if (!base) return;
	}
}
static void fns_accept_cb(evutil_socket_t fd, short what, void *arg)
{
	int srv = (int)(intptr_t)arg, i;
	evutil_socket_t c = accept(fd, NULL, NULL);
	if (c < 0) return;
	evutil_make_socket_nonblocking(c);
	for (i = 0; i < 16; i++) if (!fconns[i].used) break;
	if (i == 16) { close(c); return; }
	fconns[i].used = 1; fconns[i].fd = c; fconns[i].n = 0; fconns[i].srv = srv;
	fconns[i].ev = event_new(base, c, EV_READ | EV_PERSIST, fns_tcp_read_cb, &fconns[i]);
	event_add(fconns[i].ev, NULL);
	ELOG("\"e\":\"conn\",\"ns\":%d", srv + 1);
}
static int fns_open(int n)
{
	int i, tries;
	fns_n = 0; fns_nseen = 0; fns_nq = 0; fns_on_query = NULL; fns_nsent = 0; fns_log_at_send = 0; fns_nheld = 0;
	for (i = 0; i < n; i++) {
		for (tries = 0; tries < 50; tries++) {
			socklen_t sl = sizeof fns[i].addr;
			int one = 1;
			fns[i].ufd = socket(AF_INET, SOCK_DGRAM, 0);
			memset(&fns[i].addr, 0, sizeof fns[i].addr);
			fns[i].addr.sin_family = AF_INET; fns[i].addr.sin_addr.s_addr = htonl(0x7f000001);
			if (bind(fns[i].ufd, (struct sockaddr *)&fns[i].addr, sizeof fns[i].addr) < 0) { close(fns[i].ufd); continue; }
			getsockname(fns[i].ufd, (struct sockaddr *)&fns[i].addr, &sl);
			fns[i].tfd = socket(AF_INET, SOCK_STREAM, 0);
			setsockopt(fns[i].tfd, SOL_SOCKET, SO_REUSEADDR, &one, sizeof one);
			if (bind(fns[i].tfd, (struct sockaddr *)&fns[i].addr, sizeof fns[i].addr) == 0 && listen(fns[i].tfd, 16) == 0) break;
			close(fns[i].ufd); close(fns[i].tfd);
		}
		if (tries == 50) return -1;
		evutil_make_socket_nonblocking(fns[i].ufd); evutil_make_socket_nonblocking(fns[i].tfd);
		fns[i].uev = event_new(base, fns[i].ufd, EV_READ | EV_PERSIST, fns_udp_cb, (void *)(intptr_t)i);
		fns[i].tev = event_new(base, fns[i].tfd, EV_READ | EV_PERSIST, fns_accept_cb, (void *)(intptr_t)i);
		event_add(fns[i].uev, NULL); event_add(fns[i].tev, NULL);
		fns_n++;
	}
	return 0;
}
static void fns_close(void)
{
	int i;
	for (i = 0; i < 16; i++) fconn_close(&fconns[i]);
	for (i = 0; i < fns_n; i++) { event_free(fns[i].uev); event_free(fns[i].tev); close(fns[i].ufd); close(fns[i].tfd); }
	fns_n = 0;
	delayed_free_all();
}

/* ---------------------------------------------------------------- mode gai (C38) */
struct gres { int done, err; char *txt; size_t len; };
static void gai2_cb(int err, struct evutil_addrinfo *res, void *arg)
{
	struct gres *g = arg;
	struct evutil_addrinfo *ai;
	FILE *f = open_memstream(&g->txt, &g->len);
	int first = 1;
	g->done++; g->err = err;
	fprintf(f, "[");
	for (ai = res; ai; ai = ai->ai_next) {
		char a[128]; int port = 0;
		fmt_sockaddr(ai->ai_addr, a, sizeof a, 0);
		if (ai->ai_addr->sa_family == AF_INET) port = ntohs(((struct sockaddr_in *)ai->ai_addr)->sin_port);
		else if (ai->ai_addr->sa_family == AF_INET6) port = ntohs(((struct sockaddr_in6 *)ai->ai_addr)->sin6_port);
		fprintf(f, "%s{\"f\":%d,\"a\":\"%s\",\"p\":%d,\"st\":%d,\"pr\":%d,\"cn\":", first ? "" : ",", ai->ai_family, a, port, ai->ai_socktype, ai->ai_protocol);
		if (ai->ai_canonname) j_put_str(f, ai->ai_canonname, strlen(ai->ai_canonname)); else fprintf(f, "null");
		fprintf(f, "}");
		first = 0;
	}
	fprintf(f, "]");
	fclose(f);
	if (res) evutil_freeaddrinfo(res);
}
static void mode_gai(jval *sc)
{
	jval *lk = j_get(sc, "lookups"), *zones = j_get(sc, "zones"), *hosts = j_get(sc, "hosts"), *opts = j_get(sc, "opts");
	size_t k;
	char path[512];
	fns_open(1);
	elog_open();
	dns = evdns_base_new(base, (int)j_int(sc, "base_flags", 0));
	for (k = 0; opts && k < opts->n; k++) evdns_base_set_option(dns, opts->items[k]->items[0]->str, opts->items[k]->items[1]->str);
	evdns_base_nameserver_sockaddr_add(dns, (struct sockaddr *)&fns[0].addr, sizeof fns[0].addr, 0);
	if (hosts) {
		snprintf(path, sizeof path, "%s/dnsdrv_%d.hosts", j_str(sc, "dir", "/verif/out/tmp"), (int)getpid());
		write_file(path, hosts->str, hosts->slen);
		evdns_base_load_hosts(dns, path);
		unlink(path);
	}
	fprintf(out, "{\"res\":[");
	for (k = 0; lk && k < lk->n; k++) {
		jval *l = lk->items[k];
		struct evutil_addrinfo hints;
		struct gres g;
		struct evdns_getaddrinfo_request *rq;
		const char *node = j_get(l, "node") && j_get(l, "node")->t == J_STR ? j_get(l, "node")->str : NULL;
		const char *serv = j_get(l, "serv") && j_get(l, "serv")->t == J_STR ? j_get(l, "serv")->str : NULL;
		int q0 = fns_nq, adv = (int)j_int(l, "advance_ms", 0);
		int64_t t0;
		if (adv) { vt_now_ns += (int64_t)adv * 1000000; pump_now(2); }
		fns_rules = zones ? zones->items[j_int(l, "zone", 0)] : NULL;
		memset(&hints, 0, sizeof hints); memset(&g, 0, sizeof g);
		hints.ai_family = (int)j_int(l, "family", 0); hints.ai_socktype = (int)j_int(l, "socktype", 0);
		hints.ai_protocol = (int)j_int(l, "proto", 0); hints.ai_flags = (int)j_int(l, "flags", 0);
		t0 = vt_now_ns;
		ELOG("\"e\":\"lookup\",\"i\":%d", (int)k);
		rq = evdns_getaddrinfo(dns, node, serv, j_int(l, "nohints", 0) ? NULL : &hints, gai2_cb, &g);
		if (j_get(l, "release_ms")) {   /* place the held answer (and / or a cancel) exactly at a chosen virtual instant */
			struct timespec ts = {0, 400000};
			pump_now(3);
			fns_release();
			nanosleep(&ts, NULL);
			vt_now_ns = t0 + j_int(l, "release_ms", 0) * 1000000LL;
			if (j_int(l, "cancel", 0) && rq && !g.done) evdns_getaddrinfo_cancel(rq);
			event_base_loop(base, EVLOOP_NONBLOCK);
		}
		{ int sync = g.done && !j_get(l, "release_ms"); if (!g.done) pump_until(&g.done, 3000); pump_now(2);
		  fprintf(out, "%s{\"done\":%d,\"sync\":%d,\"err\":%d,\"nq\":%d,\"ms\":%lld,\"ai\":%s}", k ? "," : "", g.done, sync, g.err, fns_nq - q0,
		      (long long)((vt_now_ns - t0) / 1000000), g.txt ? g.txt : "[]"); }
		free(g.txt);
	}
	fprintf(out, "]");
	evdns_base_free(dns, 0); dns = NULL;
	pump_now(1);
	fclose(elogf);
	fprintf(out, ",\"log\":[%s]", elog ? elog : "");
	free(elog); elog = NULL;
	fns_close();
}


/* ---------------------------------------------------------------- mode c34 (request life-cycle under scripted faults) */
#define MAXREQ 16
static struct { struct evdns_request *h; int made, done; } c34r[MAXREQ];
static jval *c34_sc;
static int c34_freed;
static void c34_run_hooks(const char *on, int key);
static void c34_cb(int err, char type, int count, int ttl, void *addrs, void *arg)
{
	int r = (int)(intptr_t)arg;
	c34r[r].done++;
	ELOG("\"e\":\"cb\",\"r\":%d,\"err\":%d,\"count\":%d", r, err, count);
	c34_run_hooks("cb", r);
}
static void c34_make(int r)
{
	jval *reqs = j_get(c34_sc, "reqs"), *q;
	static unsigned char nm[512]; size_t n;
	if (!reqs || r < 1 || (size_t)r > reqs->n || c34r[r].made || c34_freed) return;
	q = reqs->items[r - 1];
	n = unhex(j_str(q, "name_hex", ""), nm, sizeof nm - 1); nm[n] = 0;
	c34r[r].made = 1;
	ELOG("\"e\":\"make\",\"r\":%d", r);
	c34r[r].h = evdns_base_resolve_ipv4(dns, (char *)nm, (int)j_int(q, "flags", 0), c34_cb, (void *)(intptr_t)r);
	if (!c34r[r].h) { ELOG("\"e\":\"makefail\",\"r\":%d", r); c34r[r].done = 1; }
}
static void c34_do(jval *acts)
{
	size_t k;
	for (k = 0; acts && k < acts->n; k++) {
		jval *a = acts->items[k];
		const char *what = j_str(a, "a", "");
		int r = (int)j_int(a, "req", 0);
		if (!strcmp(what, "make")) c34_make(r);
		else if (!strcmp(what, "cancel")) {
			if (r >= 1 && r < MAXREQ && c34r[r].made && !c34r[r].done && c34r[r].h && !c34_freed) {
				ELOG("\"e\":\"cancel\",\"r\":%d", r);
				evdns_cancel_request(dns, c34r[r].h);
			}
		} else if (!strcmp(what, "free")) {
			if (!c34_freed) {
				int f = (int)j_int(a, "fail", 0);
				c34_freed = 1;
				ELOG("\"e\":\"free\",\"fail\":%d", f);
				evdns_base_free(dns, f); dns = NULL;
			}
		}
	}
}
static void c34_run_hooks(const char *on, int key)
{
	jval *hooks = j_get(c34_sc, "hooks");
	size_t k;
	for (k = 0; hooks && k < hooks->n; k++) {
		jval *h = hooks->items[k];
		if (strcmp(j_str(h, "on", ""), on) || j_int(h, "key", 0) != key || j_int(h, "fired", 0)) continue;
		{ jval *f = j_get(h, "fired"); if (f) f->i = 1; }
		c34_do(j_get(h, "do"));
	}
}
static void c34_on_query(int nq) { c34_run_hooks("q", nq); }
static void mode_c34(jval *sc)
{
	jval *opts = j_get(sc, "opts");
	size_t k;
	int i;
	c34_sc = sc; c34_freed = 0; memset(c34r, 0, sizeof c34r);
	fns_open((int)j_int(sc, "nns", 2));
	fns_rules = j_get(sc, "rules");
	elog_open();
	dns = evdns_base_new(base, 0);
	if (j_get(sc, "conf")) {
		char path[512]; jval *t = j_get(sc, "conf");
		snprintf(path, sizeof path, "%s/dnsdrv_%d.c34conf", j_str(sc, "dir", "/verif/out/tmp"), (int)getpid());
		write_file(path, t->str, t->slen);
		evdns_base_resolv_conf_parse(dns, DNS_OPTION_SEARCH | DNS_OPTION_MISC, path);
		unlink(path);
	}
	for (k = 0; opts && k < opts->n; k++) evdns_base_set_option(dns, opts->items[k]->items[0]->str, opts->items[k]->items[1]->str);
	for (i = 0; i < fns_n; i++) evdns_base_nameserver_sockaddr_add(dns, (struct sockaddr *)&fns[i].addr, sizeof fns[i].addr, 0);
	fns_on_query = c34_on_query;
	fns_log_at_send = 1;
	c34_run_hooks("start", 0);
	{ /* virtual watchdog: run until nothing can happen any more (or a generous number of timer expiries) */
		int it, blocked = 0, cap = (int)j_int(sc, "iterations", 300);
		for (it = 0; it < cap; it++) {
			loop_blocked = 0;
			event_base_loop(base, EVLOOP_ONCE);
			if (loop_blocked) { struct timespec ts = {0, 400000}; if (++blocked > 2) break; nanosleep(&ts, NULL); } else blocked = 0;
		}
	}
	ELOG("\"e\":\"quiesce\"");
	fns_on_query = NULL; fns_log_at_send = 0;
	if (!c34_freed) { evdns_base_free(dns, 0); dns = NULL; }
	pump_now(1);
	fclose(elogf);
	fprintf(out, "{\"log\":[%s],\"done\":[", elog ? elog : "");
	for (i = 1; i < MAXREQ; i++) fprintf(out, "%s%d", i > 1 ? "," : "", c34r[i].made ? c34r[i].done : -1);
	fprintf(out, "]");
	free(elog); elog = NULL;
	fns_close();
}

/* ---------------------------------------------------------------- main */
static void run_scenario(jval *sc)
{
	const char *mode = j_str(sc, "mode", "");
	long before;
	vt_now_ns = 1000LL * 1000000000LL; settled = 0;
	before = live_allocs;
	base = event_base_new();
	ns_open();
	if (!strcmp(mode, "resolvconf")) mode_resolvconf(sc);
	else if (!strcmp(mode, "server")) mode_server(sc);
	else if (!strcmp(mode, "query")) mode_client(sc, 0);
	else if (!strcmp(mode, "reply")) mode_client(sc, 1);
	else if (!strcmp(mode, "gai")) mode_gai(sc);
	else if (!strcmp(mode, "c34")) mode_c34(sc);
	else fprintf(out, "{\"err\":\"unknown mode\"");
	ns_close();
	pump_now(0);
	event_base_free(base); base = NULL;
	fprintf(out, ",\"leak\":%ld}\n", live_allocs - before);
}

int main(int argc, char **argv)
{
	char *line;
	event_set_mem_functions(m_malloc, m_realloc, m_free);
	event_set_log_callback(quiet_log);
	evdns_set_log_fn(quiet_dns_log);
	signal(SIGPIPE, SIG_IGN);
	vt_wait_policy = wait_policy;
	vt_on_wait = on_wait;
	{ /* warm-up: one-time allocations of the library happen here */
		base = event_base_new();
		dns = evdns_base_new(base, 0);
		evdns_base_free(dns, 0); event_base_free(base); base = NULL; dns = NULL;
	}
	out = stdout;
	while ((line = j_readline(stdin))) {
		if (line[0]) {
			jval *sc = j_parse(line);
			char *mbuf = NULL; size_t mlen = 0;
			out = open_memstream(&mbuf, &mlen);
			run_scenario(sc);
			fclose(out);
			fwrite(mbuf, 1, mlen, stdout);
			fflush(stdout);
			free(mbuf);
			j_free_all();
		}
		free(line);
	}
	return 0;
}
