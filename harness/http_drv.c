/* Shared HTTP driver: a real evhttp server (mode "server") or a real
 * evhttp_connection client (mode "client") talking over loopback TCP to a raw
 * socket the driver scripts.  No oracle logic here: the driver feeds octets in
 * the requested segmentation and logs what the library handed to callbacks.
 *
 * stdin : one JSON scenario per line
 *   server: {"mode":"server","cfg":{"max_hdr":-1,"max_body":-1,"lingering":0},
 *            "bytes":"...","segs":[[cut,...],...],"eof":1}
 *   client: {"mode":"client","cfg":{...},"bytes":"...","segs":[[cut,...],...],
 *            "reqs":["GET","HEAD",...],"eof":0|1}
 * a segmentation is the sorted list of cut offsets (0 < cut < len); every
 * segmentation is run on a fresh connection.
 * stdout: {"runs":[{"o":<observation>,"segs":[indices having exactly this observation]},...]}
 *
 * Quiescence is decided from byte counters and kernel queue lengths (never from
 * the wall clock): everything written has been read by the peer endpoint, no
 * callback is active, nothing is left to flush.  A watchdog only guards hangs.
 */
#include <sys/types.h>
#include <sys/socket.h>
#include <sys/ioctl.h>
#include <netinet/in.h>
#include <netinet/tcp.h>
#include <arpa/inet.h>
#include <poll.h>
#include <unistd.h>
#include <fcntl.h>
#include <errno.h>
#include <signal.h>
#include <time.h>
#include <sched.h>
#include <stdint.h>
#include <sys/queue.h>
#include <event2/event.h>
#include <event2/http.h>
#include <event2/http_struct.h>
#include <event2/buffer.h>
#include <event2/bufferevent.h>
#include <event2/keyvalq_struct.h>
#include <event2/listener.h>
#include "http-internal.h"   /* evcon->retry_cnt, only to pace the \"late_listen\" fault script */
#include "mjson.h"

#define EXT_TYPE (1u << 16) /* extension method PATCHY */

static struct event_base *base;
static struct evhttp *http;
static int srv_port;
static int hang; /* watchdog fired */
static size_t scen_maxbuf;
static jval *reply_spec;      /* server mode: how gen_cb answers (C26); NULL = 200 "ok" */
static jval *route_spec;      /* server mode: routing configuration (C30) */
static FILE *rclog; static int nrc; /* return codes of evhttp_add_header / evhttp_make_request */
static void log_rc(int rc) { if (rclog) fprintf(rclog, "%s%d", nrc++ ? "," : "", rc); } /* largest input-buffer length seen during the scenario */

/* ---- per-run state */
static FILE *dlog;            /* deliveries as JSON array elements */
static int ndeliv;
static struct bufferevent *cur_bev; /* library side bufferevent of the connection under test */
static size_t in_added, out_written, maxbuf;
static int cfd = -1;          /* raw socket owned by the driver */
static size_t cli_written, cli_read;
static int cli_eof, cli_rst;
static char *resp; static size_t resp_len, resp_cap;

static double now_s(void) { struct timespec ts; clock_gettime(CLOCK_MONOTONIC, &ts); return ts.tv_sec + ts.tv_nsec / 1e9; }
static void quiet_log(int sev, const char *msg) { (void)sev; (void)msg; }

static void in_cb(struct evbuffer *b, const struct evbuffer_cb_info *info, void *arg)
{
	size_t l = evbuffer_get_length(b);
	in_added += info->n_added;
	if (l > maxbuf) maxbuf = l;
}
static void out_cb(struct evbuffer *b, const struct evbuffer_cb_info *info, void *arg)
{
	out_written += info->n_deleted;
}
static void track_bev(struct bufferevent *bev)
{
	if (bev == cur_bev) return;
	cur_bev = bev;
	evbuffer_add_cb(bufferevent_get_input(bev), in_cb, NULL);
	evbuffer_add_cb(bufferevent_get_output(bev), out_cb, NULL);
}

/* ---- raw endpoint */
static int lfd = -1;          /* client mode: raw listening socket (the scripted peer) */
static int naccept;
static void set_nonblock(int fd);
static void raw_accept(void)
{
	int fd;
	if (lfd < 0) return;
	while ((fd = accept(lfd, NULL, NULL)) >= 0) {
		naccept++;
		if (cfd < 0 && naccept == 1) {
			int one = 1;
			cfd = fd; set_nonblock(cfd);
			setsockopt(cfd, IPPROTO_TCP, TCP_NODELAY, &one, sizeof(one));
		} else { /* only the first connection is scripted: later ones are refused */
			struct linger lg = { 1, 0 };
			setsockopt(fd, SOL_SOCKET, SO_LINGER, &lg, sizeof(lg));
			close(fd);
		}
	}
}
static void raw_drain(void)
{
	char buf[65536];
	raw_accept();
	if (cfd < 0 || cli_eof) return;
	for (;;) {
		ssize_t r = read(cfd, buf, sizeof(buf));
		if (r > 0) {
			if (resp_len + r + 1 > resp_cap) { resp_cap = (resp_len + r + 1) * 2; resp = realloc(resp, resp_cap); }
			memcpy(resp + resp_len, buf, r); resp_len += r; cli_read += r;
			continue;
		}
		if (r == 0) { cli_eof = 1; return; }
		if (errno == EINTR) continue;
		if (errno == EAGAIN || errno == EWOULDBLOCK) return;
		cli_eof = 1; cli_rst = 1; return;
	}
}
static int fionread(int fd) { int n = 0; if (ioctl(fd, FIONREAD, &n) < 0) return 0; return n; }

/* library-side connection alive? (server mode: connection count; client mode: set by caller) */
static int (*lib_alive)(void);
static int srv_alive(void) { return evhttp_get_connection_count(http) > 0; }

static int is_quiet(void)
{
	if (event_base_get_num_events(base, EVENT_BASE_COUNT_ACTIVE) != 0) return 0;
	if (lib_alive() && cur_bev && bufferevent_getfd(cur_bev) >= 0) {
		int fd = bufferevent_getfd(cur_bev);
		int q = fionread(fd);
		if (in_added + (size_t)q != cli_written && !cli_rst) return 0;     /* octets still in flight to the library */
		if (q > 0 && (bufferevent_get_enabled(cur_bev) & EV_READ)) return 0; /* it will read them */
		if (evbuffer_get_length(bufferevent_get_output(cur_bev)) > 0) return 0;
		if (!cli_eof && cli_read != out_written) return 0;               /* octets in flight to the raw side */
	} else {
		if (cfd >= 0 && !cli_eof && !lib_alive()) return 0;               /* wait for the FIN/RST to arrive */
		if (cfd >= 0 && !cli_eof && cli_read != out_written) return 0;
	}
	return 1;
}
static int settle(void)
{
	int stable = 0; long it = 0; double t0 = now_s();
	for (;;) {
		event_base_loop(base, EVLOOP_NONBLOCK);
		raw_drain();
		if (is_quiet()) { if (++stable >= 2) return 0; }
		else {
			stable = 0;
			if (++it > 20) { sched_yield(); if (it > 2000) usleep(100); }
			if ((it & 255) == 0 && now_s() - t0 > 15.0) { hang = 1; return -1; }
		}
	}
}
static void raw_write(const char *p, size_t n)
{
	double t0 = now_s();
	while (n > 0 && !cli_eof) {
		ssize_t w = send(cfd, p, n, MSG_NOSIGNAL);
		if (w > 0) { p += w; n -= w; cli_written += w; continue; }
		if (w < 0 && errno == EINTR) continue;
		if (w < 0 && (errno == EAGAIN || errno == EWOULDBLOCK)) {
			event_base_loop(base, EVLOOP_NONBLOCK); raw_drain();
			if (now_s() - t0 > 15.0) { hang = 1; return; }
			continue;
		}
		cli_rst = 1; return; /* EPIPE / ECONNRESET: the peer is gone */
	}
}
static void raw_close_abort(void)
{
	struct linger lg = { 1, 0 };
	if (cfd < 0) return;
	setsockopt(cfd, SOL_SOCKET, SO_LINGER, &lg, sizeof(lg));
	close(cfd); cfd = -1;
}
static void set_nonblock(int fd) { fcntl(fd, F_SETFL, fcntl(fd, F_GETFL) | O_NONBLOCK); }

/* ---- logging helpers */
static void log_headers(FILE *f, struct evkeyvalq *hs)
{
	struct evkeyval *h; int first = 1;
	fputc('[', f);
	TAILQ_FOREACH(h, hs, next) {
		if (!first) fputc(',', f);
		first = 0;
		fputc('[', f); j_put_str(f, h->key, strlen(h->key)); fputc(',', f);
		j_put_str(f, h->value, strlen(h->value)); fputc(']', f);
	}
	fputc(']', f);
}
static void log_body(FILE *f, struct evbuffer *b)
{
	size_t n = evbuffer_get_length(b);
	unsigned char *p = evbuffer_pullup(b, -1);
	j_put_str(f, (const char *)(p ? p : (unsigned char *)""), n);
}
static const char *cmd_name(enum evhttp_cmd_type t)
{
	switch ((unsigned)t) {
	case EVHTTP_REQ_GET: return "GET"; case EVHTTP_REQ_POST: return "POST"; case EVHTTP_REQ_HEAD: return "HEAD";
	case EVHTTP_REQ_PUT: return "PUT"; case EVHTTP_REQ_DELETE: return "DELETE"; case EVHTTP_REQ_OPTIONS: return "OPTIONS";
	case EVHTTP_REQ_TRACE: return "TRACE"; case EVHTTP_REQ_CONNECT: return "CONNECT"; case EVHTTP_REQ_PATCH: return "PATCH";
	case EXT_TYPE: return "PATCHY";
	default: return "?";
	}
}

/* ---- server mode */
static int ext_cmp(struct evhttp_ext_method *m)
{
	if (m->method) { /* parsing: name -> type */
		if (!strcmp(m->method, "PATCHY")) { m->type = EXT_TYPE; return 0; }
		return -1;
	}
	if (m->type == EXT_TYPE) { m->method = "PATCHY"; m->flags = EVHTTP_METHOD_HAS_BODY; return 0; }
	return -1;
}
static int newreq_cb(struct evhttp_request *req, void *arg)
{
	struct evhttp_connection *c = evhttp_request_get_connection(req);
	if (c) track_bev(evhttp_connection_get_bufferevent(c));
	if (c && bufferevent_getfd(evhttp_connection_get_bufferevent(c)) >= 0) {
		/* no Nagle on the server side: a small reply must not wait for the raw client's delayed ACK
		 * (quiescence of the scripts is judged from what has arrived) */
		int one = 1;
		setsockopt(bufferevent_getfd(evhttp_connection_get_bufferevent(c)), IPPROTO_TCP, TCP_NODELAY, &one, sizeof(one));
	}
	return 0;
}
static void gen_cb(struct evhttp_request *req, void *arg)
{
	struct evbuffer *b = evbuffer_new();
	if (ndeliv++) fputc(',', dlog);
	fprintf(dlog, "{");
	if (arg) fprintf(dlog, "\"r\":\"%s\",", (const char *)arg);   /* C30: which registration received it */
	fprintf(dlog, "\"m\":\"%s\",\"t\":", cmd_name(evhttp_request_get_command(req)));
	j_put_str(dlog, evhttp_request_get_uri(req), strlen(evhttp_request_get_uri(req)));
	fprintf(dlog, ",\"v\":[%d,%d],\"h\":", req->major, req->minor);
	log_headers(dlog, evhttp_request_get_input_headers(req));
	fputs(",\"b\":", dlog);
	log_body(dlog, evhttp_request_get_input_buffer(req));
	fputc('}', dlog);
	if (reply_spec) {
		jval *hs = j_get(reply_spec, "hdrs"), *ch = j_get(reply_spec, "chunks"), *body = j_get(reply_spec, "body");
		const char *style = j_str(reply_spec, "style", "reply"), *reason = j_str(reply_spec, "reason", "OK");
		int code = (int)j_int(reply_spec, "code", 200);
		size_t i;
		for (i = 0; hs && i < hs->n; i++)
			log_rc(evhttp_add_header(evhttp_request_get_output_headers(req), hs->items[i]->items[0]->str, hs->items[i]->items[1]->str));
		if (!strcmp(style, "error")) evhttp_send_error(req, code, reason);
		else if (!strcmp(style, "chunked")) {
			evhttp_send_reply_start(req, code, reason);
			for (i = 0; ch && i < ch->n; i++) {
				evbuffer_add(b, ch->items[i]->str, ch->items[i]->slen);
				evhttp_send_reply_chunk(req, b);
				evbuffer_drain(b, evbuffer_get_length(b));
			}
			evhttp_send_reply_end(req);
		} else {
			if (body) evbuffer_add(b, body->str, body->slen);
			evhttp_send_reply(req, code, reason, b);
		}
		evbuffer_free(b);
		return;
	}
	if (evhttp_request_get_command(req) != EVHTTP_REQ_HEAD) evbuffer_add(b, "ok", 2);
	evhttp_send_reply(req, 200, "OK", b);
	evbuffer_free(b);
}
static void server_init(void)
{
	struct evhttp_bound_socket *bs;
	struct sockaddr_in sin; socklen_t sl = sizeof(sin);
	http = evhttp_new(base);
	evhttp_set_gencb(http, gen_cb, NULL);
	evhttp_set_newreqcb(http, newreq_cb, NULL);
	evhttp_set_ext_method_cmp(http, ext_cmp);
	evhttp_set_allowed_methods(http, 0xffff | EXT_TYPE);
	bs = evhttp_bind_socket_with_handle(http, "127.0.0.1", 0);
	if (!bs) { fprintf(stderr, "bind failed\n"); exit(3); }
	getsockname(evhttp_bound_socket_get_fd(bs), (struct sockaddr *)&sin, &sl);
	srv_port = ntohs(sin.sin_port);
}

/* final-status list of the responses the raw side received: [100,200,...] */
static void log_statuses(FILE *f, const char *p, size_t n)
{
	size_t i = 0; int first = 1;
	fputc('[', f);
	while (i < n) {
		/* status line */
		size_t e = i; long cl = -1; int code = 0, nobody, chunked = 0;
		while (e < n && p[e] != '\n') e++;
		if (e >= n) { if (!first) fputc(',', f); fputs("-1", f); first = 0; break; } /* truncated */
		if (e - i >= 12 && !memcmp(p + i, "HTTP/", 5)) code = atoi(p + i + 9);
		else { if (!first) fputc(',', f); fputs("-2", f); first = 0; break; }       /* not a status line */
		if (!first) fputc(',', f);
		fprintf(f, "%d", code); first = 0;
		i = e + 1;
		for (;;) { /* header lines */
			e = i;
			while (e < n && p[e] != '\n') e++;
			if (e >= n) { i = n; break; }
			if (e - i >= 15 && !strncasecmp(p + i, "Content-Length:", 15)) cl = atol(p + i + 15);
			if (e - i >= 26 && !strncasecmp(p + i, "Transfer-Encoding: chunked", 26)) chunked = 1;
			if (e == i || (e == i + 1 && p[i] == '\r')) { i = e + 1; break; }
			i = e + 1;
		}
		nobody = (code >= 100 && code < 200) || code == 204 || code == 304;
		if (nobody) continue;
		if (chunked) { /* skip the chunks */
			for (;;) {
				long sz = strtol(p + i, NULL, 16);
				while (i < n && p[i] != '\n') i++;
				if (i >= n) break;
				i++;
				if (sz == 0) { while (i < n && p[i] != '\n') i++; if (i < n) i++; break; }
				i += (size_t)sz + 2;
				if (i >= n) break;
			}
			continue;
		}
		if (cl < 0) break; /* close-delimited */
		i += (size_t)cl;
	}
	fputc(']', f);
}

static int wait_until(int (*pred)(void))
{
	double t0 = now_s(); long it = 0;
	while (!pred()) {
		event_base_loop(base, EVLOOP_NONBLOCK); raw_drain();
		if (++it > 20) sched_yield();
		if ((it & 255) == 0 && now_s() - t0 > 15.0) { hang = 1; return -1; }
	}
	return 0;
}
static int srv_dead(void) { return !srv_alive(); }

static void reset_run(void)
{
	ndeliv = 0; cur_bev = NULL; in_added = out_written = maxbuf = 0;
	cli_written = cli_read = 0; cli_eof = cli_rst = 0; resp_len = 0;
}

/* run one segmentation against the server; writes the observation object to f */
static void server_run(FILE *f, const char *bytes, size_t n, jval *cuts, int do_eof)
{
	struct sockaddr_in sin;
	char *dbuf = NULL; size_t dlen = 0;
	char *rcbuf = NULL; size_t rcn = 0;
	size_t pos = 0, k;
	int nd_a, closed_a; size_t maxbuf_a;
	reset_run();
	rclog = open_memstream(&rcbuf, &rcn); nrc = 0;
	lib_alive = srv_alive;
	dlog = open_memstream(&dbuf, &dlen);
	cfd = socket(AF_INET, SOCK_STREAM, 0);
	memset(&sin, 0, sizeof(sin)); sin.sin_family = AF_INET; sin.sin_port = htons(srv_port);
	sin.sin_addr.s_addr = htonl(INADDR_LOOPBACK);
	if (connect(cfd, (struct sockaddr *)&sin, sizeof(sin)) < 0) { fprintf(stderr, "connect: %s\n", strerror(errno)); exit(3); }
	{ int one = 1; setsockopt(cfd, IPPROTO_TCP, TCP_NODELAY, &one, sizeof(one)); }
	set_nonblock(cfd);
	wait_until(srv_alive);
	for (k = 0; k <= (cuts ? cuts->n : 0) && !hang; k++) {
		size_t end = (cuts && k < cuts->n) ? (size_t)cuts->items[k]->i : n;
		if (end > n) end = n;
		if (end <= pos) continue;
		raw_write(bytes + pos, end - pos);
		pos = end;
		settle();
		if (cli_eof || cli_rst) break;
	}
	settle();
	fflush(dlog);
	nd_a = ndeliv; closed_a = cli_eof; maxbuf_a = maxbuf;
	fprintf(f, "{\"d\":[%.*s],\"st\":", (int)dlen, dbuf ? dbuf : "");
	log_statuses(f, resp, resp_len);
	fprintf(f, ",\"closed\":%d", closed_a);
	if (reply_spec) {
		fflush(rclog);
		fprintf(f, ",\"rc\":[%.*s],\"raw\":", (int)rcn, rcbuf ? rcbuf : "");
		j_put_str(f, resp ? resp : "", resp_len);
	}
	if (maxbuf_a > scen_maxbuf) scen_maxbuf = maxbuf_a;
	if (do_eof && !cli_eof) {
		shutdown(cfd, SHUT_WR);
		/* the FIN is not counted in any byte counter: wait for the library to react */
		wait_until(srv_dead);
		settle();
	}
	fprintf(f, ",\"d_eof\":%d,\"closed_eof\":%d,\"hang\":%d}", ndeliv - nd_a, cli_eof, hang);
	raw_close_abort();
	wait_until(srv_dead);
	fclose(dlog); free(dbuf); dlog = NULL;
	fclose(rclog); free(rcbuf); rclog = NULL;
}

/* C30: a routing tree built for one scenario:
 * {"allowed":mask,"nodes":[{"parent":-1|idx,"pattern":str,"aliases":[..],"paths":[..],"gen":0|1},...]} node 0 = root */
static struct evhttp *route_saved_http; static int route_saved_port;
static char *route_labels[256]; static int n_route_labels;
static char *route_label(const char *fmt, int id, const char *path)
{
	char *l = malloc(strlen(path) + 32);
	sprintf(l, fmt, id, path);
	route_labels[n_route_labels++] = l;
	return l;
}
static void route_build(jval *r)
{
	jval *nodes = j_get(r, "nodes");
	struct evhttp *hs[16]; size_t i, k;
	struct evhttp_bound_socket *bs; struct sockaddr_in sin; socklen_t sl = sizeof(sin);
	route_saved_http = http; route_saved_port = srv_port;
	for (i = 0; i < nodes->n && i < 16; i++) {
		jval *nd = nodes->items[i], *al = j_get(nd, "aliases"), *ps = j_get(nd, "paths");
		hs[i] = evhttp_new(base);
		if (i > 0) evhttp_add_virtual_host(hs[j_int(nd, "parent", 0)], j_str(nd, "pattern", ""), hs[i]);
		for (k = 0; al && k < al->n; k++) evhttp_add_server_alias(hs[i], al->items[k]->str);
		for (k = 0; ps && k < ps->n && n_route_labels < 250; k++)
			evhttp_set_cb(hs[i], ps->items[k]->str, gen_cb, route_label("cb:%d:%s", (int)i, ps->items[k]->str));
		if (j_int(nd, "gen", 0)) evhttp_set_gencb(hs[i], gen_cb, route_label("gen:%d%s", (int)i, ""));
	}
	http = hs[0];
	evhttp_set_newreqcb(http, newreq_cb, NULL);
	evhttp_set_allowed_methods(http, (ev_uint32_t)j_int(r, "allowed", 0xffff));
	bs = evhttp_bind_socket_with_handle(http, "127.0.0.1", 0);
	if (!bs) { fprintf(stderr, "bind failed\n"); exit(3); }
	getsockname(evhttp_bound_socket_get_fd(bs), (struct sockaddr *)&sin, &sl);
	srv_port = ntohs(sin.sin_port);
}
static void route_destroy(void)
{
	evhttp_free(http); /* frees the virtual hosts too */
	http = route_saved_http; srv_port = route_saved_port;
	while (n_route_labels) free(route_labels[--n_route_labels]);
}

static void apply_server_cfg(jval *cfg)
{
	long long mh = j_int(cfg, "max_hdr", -1), mb = j_int(cfg, "max_body", -1);
	evhttp_set_max_headers_size(http, (ev_ssize_t)mh);
	evhttp_set_max_body_size(http, (ev_ssize_t)mb);
	evhttp_set_flags(http, j_int(cfg, "lingering", 0) ? EVHTTP_SERVER_LINGERING_CLOSE : 0);
}

/* ---- client mode: a real evhttp_connection against the scripted raw peer */
static struct evhttp_connection *evcon;
static int cli_port, ncb, nreqs;

static int cli_lib_alive(void) { return cur_bev && bufferevent_getfd(cur_bev) >= 0 && cfd >= 0 && !cli_eof; }
static void done_cb(struct evhttp_request *req, void *arg)
{
	int idx = (int)(intptr_t)arg;
	if (ncb++) fputc(',', dlog);
	if (!req || evhttp_request_get_response_code(req) == 0) { fprintf(dlog, "{\"i\":%d,\"fail\":1}", idx); return; }
	fprintf(dlog, "{\"i\":%d,\"code\":%d,\"v\":[%d,%d],\"h\":", idx, evhttp_request_get_response_code(req), req->major, req->minor);
	log_headers(dlog, evhttp_request_get_input_headers(req));
	fputs(",\"b\":", dlog);
	log_body(dlog, evhttp_request_get_input_buffer(req));
	fputc('}', dlog);
}
static void client_init(void)
{
	struct sockaddr_in sin; socklen_t sl = sizeof(sin);
	lfd = socket(AF_INET, SOCK_STREAM, 0);
	memset(&sin, 0, sizeof(sin)); sin.sin_family = AF_INET; sin.sin_addr.s_addr = htonl(INADDR_LOOPBACK);
	if (bind(lfd, (struct sockaddr *)&sin, sizeof(sin)) < 0 || listen(lfd, 16) < 0) { perror("listen"); exit(3); }
	getsockname(lfd, (struct sockaddr *)&sin, &sl);
	cli_port = ntohs(sin.sin_port);
	set_nonblock(lfd);
}
static int have_conn(void) { return cfd >= 0; }
static int all_done(void) { return ncb >= nreqs; }

static void client_run(FILE *f, const char *bytes, size_t n, jval *cuts, jval *reqs, jval *cfg, int do_eof)
{
	char *dbuf = NULL; size_t dlen = 0, pos = 0, k;
	char *rcbuf = NULL; size_t rcn = 0;
	int ncb_a, wrote = 0;
	reset_run(); ncb = 0; naccept = 0; cfd = -1;
	lib_alive = cli_lib_alive;
	dlog = open_memstream(&dbuf, &dlen);
	evcon = evhttp_connection_base_new(base, NULL, "127.0.0.1", (ev_uint16_t)cli_port);
	if (j_get(cfg, "max_hdr")) evhttp_connection_set_max_headers_size(evcon, (ev_ssize_t)j_int(cfg, "max_hdr", -1));
	if (j_get(cfg, "max_body")) evhttp_connection_set_max_body_size(evcon, (ev_ssize_t)j_int(cfg, "max_body", -1));
	track_bev(evhttp_connection_get_bufferevent(evcon));
	nreqs = reqs ? (int)reqs->n : 0;
	rclog = open_memstream(&rcbuf, &rcn); nrc = 0;
	for (k = 0; k < (size_t)nreqs; k++) {
		jval *w = reqs->items[k]->t == J_OBJ ? reqs->items[k] : NULL;  /* C26: {"m","uri","hdrs","body"} */
		const char *m = w ? j_str(w, "m", "GET") : reqs->items[k]->str; char uri[32];
		struct evhttp_request *r = evhttp_request_new(done_cb, (void *)(intptr_t)k);
		enum evhttp_cmd_type t = !strcmp(m, "HEAD") ? EVHTTP_REQ_HEAD : !strcmp(m, "POST") ? EVHTTP_REQ_POST :
		    !strcmp(m, "PUT") ? EVHTTP_REQ_PUT : !strcmp(m, "DELETE") ? EVHTTP_REQ_DELETE :
		    !strcmp(m, "CONNECT") ? EVHTTP_REQ_CONNECT : EVHTTP_REQ_GET;
		snprintf(uri, sizeof(uri), "/r%d", (int)k);
		if (w) {
			jval *hs = j_get(w, "hdrs"), *body = j_get(w, "body"); size_t i;
			for (i = 0; hs && i < hs->n; i++)
				log_rc(evhttp_add_header(evhttp_request_get_output_headers(r), hs->items[i]->items[0]->str, hs->items[i]->items[1]->str));
			if (body && body->slen) evbuffer_add(evhttp_request_get_output_buffer(r), body->str, body->slen);
			log_rc(evhttp_make_request(evcon, r, t, j_str(w, "uri", "/")));
			wrote = 1;
			continue;
		}
		evhttp_add_header(evhttp_request_get_output_headers(r), "Host", "h");
		if (t == EVHTTP_REQ_POST) evbuffer_add(evhttp_request_get_output_buffer(r), "pp", 2);
		evhttp_make_request(evcon, r, t, uri);
	}
	wait_until(have_conn);
	settle();
	for (k = 0; k <= (cuts ? cuts->n : 0) && !hang; k++) {
		size_t end = (cuts && k < cuts->n) ? (size_t)cuts->items[k]->i : n;
		if (end > n) end = n;
		if (end <= pos) continue;
		raw_write(bytes + pos, end - pos);
		pos = end;
		settle();
		if (cli_eof || cli_rst) break;
	}
	settle();
	if (do_eof) {
		if (cfd >= 0 && !cli_eof) shutdown(cfd, SHUT_WR);
		wait_until(all_done); /* the peer is gone: every request ends, one way or the other */
		settle();
	}
	fflush(dlog);
	ncb_a = ncb;
	fprintf(f, "{\"cb\":[%.*s],\"closed\":%d,\"sent\":%zu", (int)dlen, dbuf ? dbuf : "", cli_eof, cli_written);
	if (wrote) {
		fflush(rclog);
		fprintf(f, ",\"rc\":[%.*s],\"raw\":", (int)rcn, rcbuf ? rcbuf : "");
		j_put_str(f, resp ? resp : "", resp_len);
	}
	if (maxbuf > scen_maxbuf) scen_maxbuf = maxbuf;
	/* teardown: abort the raw side; outstanding requests fail */
	raw_close_abort();
	if (!hang) wait_until(all_done);
	fprintf(f, ",\"cb_late\":%d,\"hang\":%d}", ncb - ncb_a, hang);
	evhttp_connection_free(evcon); evcon = NULL; cur_bev = NULL;
	event_base_loop(base, EVLOOP_NONBLOCK);
	raw_accept();
	fclose(dlog); free(dbuf); dlog = NULL;
	fclose(rclog); free(rcbuf); rclog = NULL;
}

/* ---- client fault scripts (C27): every request completes exactly once, whatever the network does.
 * {"mode":"clientfault","reqs":["GET",..],"retries":n,"errcb":0|1,"timeout_ms":80,"deadport":0|1,
 *  "conns":[{"bytes":"..","at":k,"fault":"none|eof|rst|stall","close_after":0|1},..],  k-th accepted connection; later ones are reset
 *  "cancel":{"i":idx,"when":"start|mid"}}
 * output {"ev":[["make",i,rc],["cancel",i],["done",i,ok],["err",i,code],...,["end"]],"hang":0|1} */
static FILE *evlog; static int nev;
static struct evhttp_request *freq[8]; static int fdone[8], fcancelled[8], f_n, f_ncancel;
static void ev_put(const char *e, int i, int x)
{
	fprintf(evlog, "%s[\"%s\",%d,%d]", nev++ ? "," : "", e, i, x);
}
static int f_errcb_on, f_follow_in_cb, f_follow_made, f_follow_pending;
static void f_err_cb(enum evhttp_request_error err, void *arg);
static void f_done_cb(struct evhttp_request *req, void *arg);
static void f_make(int i, const char *m)
{
	char uri[16]; int rc;
	enum evhttp_cmd_type t = !strcmp(m, "HEAD") ? EVHTTP_REQ_HEAD : !strcmp(m, "POST") ? EVHTTP_REQ_POST : EVHTTP_REQ_GET;
	freq[i] = evhttp_request_new(f_done_cb, (void *)(intptr_t)i);
	if (f_errcb_on) evhttp_request_set_error_cb(freq[i], f_err_cb);
	evhttp_add_header(evhttp_request_get_output_headers(freq[i]), "Host", "h");
	if (t == EVHTTP_REQ_POST) evbuffer_add(evhttp_request_get_output_buffer(freq[i]), "pp", 2);
	snprintf(uri, sizeof(uri), "/r%d", i);
	rc = evhttp_make_request(evcon, freq[i], t, uri);
	ev_put("make", i, rc);
}
static void f_done_cb(struct evhttp_request *req, void *arg)
{
	int i = (int)(intptr_t)arg;
	fdone[i]++; ncb++;
	ev_put("done", i, req && evhttp_request_get_response_code(req) != 0);
	if (i == 0 && f_follow_in_cb && !f_follow_made) {   /* the application issues a follow-up request from the callback */
		f_follow_made = 1; f_follow_pending = 0;
		f_make(f_n++, "GET");
	}
}
static void f_err_cb(enum evhttp_request_error err, void *arg)
{
	ev_put("err", (int)(intptr_t)arg, (int)err);
}
static void f_cancel(int i)
{
	if (i < 0 || i >= f_n || fdone[i] || fcancelled[i] || !freq[i]) return;
	fcancelled[i] = 1; f_ncancel++;
	ev_put("cancel", i, 0);
	evhttp_cancel_request(freq[i]);
}
static int f_all_done(void) { int i, n = 0; for (i = 0; i < f_n; i++) n += (fdone[i] || fcancelled[i]); return n >= f_n && !f_follow_pending; }

static void client_fault_run(FILE *f, jval *sc)
{
	jval *reqs = j_get(sc, "reqs"), *conns = j_get(sc, "conns"), *cancel = j_get(sc, "cancel");
	char *ebuf = NULL; size_t elen = 0;
	int cidx = -1, got = 0, sent = 0, i, dead_fd = -1, port = cli_port;
	int late_listen = (int)j_int(sc, "late_listen", 0), autofree = (int)j_int(sc, "autofree", 0), alfd = lfd;
	const char *follow = j_str(sc, "followup", "");
	int cancel_i = cancel ? (int)j_int(cancel, "i", -1) : -1;
	const char *cancel_when = cancel ? j_str(cancel, "when", "start") : "";
	struct timeval tv; double t0;
	long ms = (long)j_int(sc, "timeout_ms", 80);
	evlog = open_memstream(&ebuf, &elen); nev = 0; ncb = 0; hang = 0;
	memset(freq, 0, sizeof(freq)); memset(fdone, 0, sizeof(fdone)); memset(fcancelled, 0, sizeof(fcancelled));
	f_n = reqs ? (int)reqs->n : 0; if (f_n > 6) f_n = 6; f_ncancel = 0;
	cfd = -1;
	f_errcb_on = (int)j_int(sc, "errcb", 0);
	f_follow_in_cb = !strcmp(follow, "in_cb"); f_follow_made = 0; f_follow_pending = follow[0] != 0;
	if (late_listen) { /* a bound socket that starts listening only after the first refused connect */
		struct sockaddr_in sin; socklen_t sl = sizeof(sin);
		alfd = socket(AF_INET, SOCK_STREAM, 0);
		memset(&sin, 0, sizeof(sin)); sin.sin_family = AF_INET; sin.sin_addr.s_addr = htonl(INADDR_LOOPBACK);
		bind(alfd, (struct sockaddr *)&sin, sizeof(sin)); getsockname(alfd, (struct sockaddr *)&sin, &sl);
		port = ntohs(sin.sin_port); set_nonblock(alfd);
	}
	if (j_int(sc, "deadport", 0)) { /* a bound socket that does not listen: every connect is refused */
		struct sockaddr_in sin; socklen_t sl = sizeof(sin);
		dead_fd = socket(AF_INET, SOCK_STREAM, 0);
		memset(&sin, 0, sizeof(sin)); sin.sin_family = AF_INET; sin.sin_addr.s_addr = htonl(INADDR_LOOPBACK);
		bind(dead_fd, (struct sockaddr *)&sin, sizeof(sin)); getsockname(dead_fd, (struct sockaddr *)&sin, &sl);
		port = ntohs(sin.sin_port);
	}
	evcon = evhttp_connection_base_new(base, NULL, "127.0.0.1", (ev_uint16_t)port);
	tv.tv_sec = ms / 1000; tv.tv_usec = (ms % 1000) * 1000;
	evhttp_connection_set_timeout_tv(evcon, &tv);
	tv.tv_sec = 0; tv.tv_usec = 5000;
	evhttp_connection_set_initial_retry_tv(evcon, &tv);
	evhttp_connection_set_retries(evcon, (int)j_int(sc, "retries", 0));
	if (autofree) evhttp_connection_free_on_completion(evcon);
	{ int n0 = f_n; f_n = 0; for (i = 0; i < n0; i++) { f_n = i + 1; f_make(i, reqs->items[i]->str); } }
	if (!strcmp(cancel_when, "start")) f_cancel(cancel_i);
	if (late_listen) {   /* the first connect attempt was refused; from now on the port accepts */
		double tw = now_s();
		while (evcon->retry_cnt == 0 && !f_all_done() && now_s() - tw < 15.0) event_base_loop(base, EVLOOP_NONBLOCK);
		listen(alfd, 16);
	}
	t0 = now_s();
	while (!f_all_done()) {
		int fd, progressed = 0; char buf[4096]; ssize_t r;
		event_base_loop(base, EVLOOP_NONBLOCK);
		if (!strcmp(follow, "after") && !f_follow_made) {   /* everything settled: the application makes a new request */
			int k, all = 1;
			for (k = 0; k < f_n; k++) all &= (fdone[k] || fcancelled[k]);
			if (all) { f_follow_made = 1; f_follow_pending = 0; f_make(f_n++, "GET"); }
		}
		while ((fd = accept(alfd, NULL, NULL)) >= 0) {
			progressed = 1;
			/* the library has one connection at a time: a newcomer means the previous one is gone */
			if (cfd >= 0) raw_close_abort();
			cfd = fd; set_nonblock(cfd); cidx++; got = 0; sent = 0; cli_eof = 0;
		}
		if (cfd >= 0) {
			while ((r = read(cfd, buf, sizeof(buf))) > 0) { got += (int)r; progressed = 1; }
			if (r == 0 || (r < 0 && errno != EAGAIN && errno != EWOULDBLOCK && errno != EINTR)) { close(cfd); cfd = -1; progressed = 1; }
		}
		if (cfd >= 0 && got > 0 && !sent) {
			jval *c = (conns && cidx < (int)conns->n) ? conns->items[cidx] : NULL;
			sent = 1; progressed = 1;
			if (!c) raw_close_abort();
			else {
				jval *b = j_get(c, "bytes"); const char *fk = j_str(c, "fault", "none");
				size_t at = (size_t)j_int(c, "at", 1 << 30), n = b ? b->slen : 0;
				if (!strcmp(fk, "none") || at > n) at = n;
				cli_eof = 0; cli_rst = 0;
				if (at) raw_write(b->str, at);
				if (cidx == 0 && !strcmp(cancel_when, "mid")) { event_base_loop(base, EVLOOP_NONBLOCK); f_cancel(cancel_i); }
				if (!strcmp(fk, "rst")) raw_close_abort();
				else if (!strcmp(fk, "eof") || (!strcmp(fk, "none") && j_int(c, "close_after", 0))) shutdown(cfd, SHUT_WR);
			}
		}
		if (!progressed) usleep(200);
		if (now_s() - t0 > 15.0) { hang = 1; break; }
	}
	for (i = 0; i < 5; i++) event_base_loop(base, EVLOOP_NONBLOCK);
	ev_put("end", 0, 0);
	/* teardown */
	if (cfd >= 0) raw_close_abort();
	for (i = 0; i < 5; i++) { int fd; event_base_loop(base, EVLOOP_NONBLOCK); while ((fd = accept(alfd, NULL, NULL)) >= 0) { cfd = fd; raw_close_abort(); } }
	if (!autofree) evhttp_connection_free(evcon);   /* with free_on_completion the library owns the connection */
	evcon = NULL; cur_bev = NULL;
	for (i = 0; i < 5; i++) { int fd; event_base_loop(base, EVLOOP_NONBLOCK); while ((fd = accept(lfd, NULL, NULL)) >= 0) { cfd = fd; raw_close_abort(); } }
	if (dead_fd >= 0) close(dead_fd);
	if (late_listen) close(alfd);
	fflush(evlog);
	fprintf(f, "{\"ev\":[%.*s],\"late\":%d,\"hang\":%d}", (int)elen, ebuf ? ebuf : "", 0, hang);
	fclose(evlog); free(ebuf); evlog = NULL;
}

/* ---- server scripts (C27 server side): several raw clients against the real evhttp.
 * {"mode":"srvscript","max_conn":N,"steps":[["open",c],["send",c,"octets",n_complete_requests],["pclose",c],["reply",c]]}
 * request targets are /c<c>/r<k>/<m>: m = i reply at once, k chunked reply at once, d / D the application holds the
 * request and replies (plain / chunked) at the next ["reply",c] step.  Replies carry status 210+k (no 204).
 * output {"ev":[["open",c,0],["send",c,n],["h",c,k],["r",c,k],["oc",c,k],["pclose",c,0],["reply",c,0],...,["st",c,[codes],closed]...]} */
#define SC_MAX 6
static int sc_fd[SC_MAX], sc_eof[SC_MAX]; static char *sc_buf[SC_MAX]; static size_t sc_len[SC_MAX];
static struct evhttp_request *sc_held[SC_MAX]; static int sc_held_k[SC_MAX], sc_held_chunked[SC_MAX];
static long sc_activity;
static void sc_oc_cb(struct evhttp_request *req, void *arg)
{
	int v = (int)(intptr_t)arg;
	ev_put("oc", v / 100, v % 100); sc_activity++;
}
static void sc_do_reply(struct evhttp_request *req, int c, int k, int chunked)
{
	struct evbuffer *b = evbuffer_new();
	ev_put("r", c, k); sc_activity++;
	evbuffer_add_printf(b, "c%dr%d", c, k);
	if (chunked) {
		evhttp_send_reply_start(req, 210 + k, "OK");
		evhttp_send_reply_chunk(req, b);
		evhttp_send_reply_end(req);
	} else
		evhttp_send_reply(req, 210 + k, "OK", b);
	evbuffer_free(b);
}
static void sc_handler(struct evhttp_request *req, void *arg)
{
	int c = -1, k = -1; char m = 'i';
	sscanf(evhttp_request_get_uri(req), "/c%d/r%d/%c", &c, &k, &m);
	if (c < 0 || c >= SC_MAX || k < 0) { evhttp_send_error(req, 400, "bad test uri"); return; }
	ev_put("h", c, k); sc_activity++;
	evhttp_request_set_on_complete_cb(req, sc_oc_cb, (void *)(intptr_t)(c * 100 + k));
	if (m == 'd' || m == 'D') { sc_held[c] = req; sc_held_k[c] = k; sc_held_chunked[c] = (m == 'D'); return; }
	sc_do_reply(req, c, k, m == 'k');
}
static void sc_drain(void)
{
	int c; char buf[8192];
	for (c = 0; c < SC_MAX; c++) {
		ssize_t r;
		if (sc_fd[c] < 0 || sc_eof[c]) continue;
		while ((r = read(sc_fd[c], buf, sizeof(buf))) > 0) {
			sc_buf[c] = realloc(sc_buf[c], sc_len[c] + r + 1);
			memcpy(sc_buf[c] + sc_len[c], buf, r); sc_len[c] += r; sc_activity++;
			{ int one = 1; setsockopt(sc_fd[c], IPPROTO_TCP, TCP_QUICKACK, &one, sizeof(one)); }
		}
		if (r == 0 || (r < 0 && errno != EAGAIN && errno != EWOULDBLOCK && errno != EINTR)) { sc_eof[c] = 1; sc_activity++; }
	}
}
static void sc_settle(void)
{
	int quiet = 0; long last = -1; double t0 = now_s();
	while (quiet < 12) {
		event_base_loop(base, EVLOOP_NONBLOCK);
		sc_drain();
		if (sc_activity == last && event_base_get_num_events(base, EVENT_BASE_COUNT_ACTIVE) == 0) { quiet++; if (quiet > 3) usleep(300); }
		else { quiet = 0; last = sc_activity; }
		if (now_s() - t0 > 15.0) { hang = 1; return; }
	}
}
static void server_script_run(FILE *f, jval *sc)
{
	jval *steps = j_get(sc, "steps");
	char *ebuf = NULL; size_t elen = 0; size_t i; int c;
	struct sockaddr_in sin;
	evlog = open_memstream(&ebuf, &elen); nev = 0; hang = 0; sc_activity = 0;
	for (c = 0; c < SC_MAX; c++) { sc_fd[c] = -1; sc_eof[c] = 0; sc_len[c] = 0; sc_held[c] = NULL; }
	evhttp_set_gencb(http, sc_handler, NULL);
	evhttp_set_max_connections(http, (int)j_int(sc, "max_conn", 0));
	memset(&sin, 0, sizeof(sin)); sin.sin_family = AF_INET; sin.sin_port = htons(srv_port); sin.sin_addr.s_addr = htonl(INADDR_LOOPBACK);
	for (i = 0; steps && i < steps->n && !hang; i++) {
		jval *st = steps->items[i]; const char *op = st->items[0]->str; c = (int)st->items[1]->i;
		if (c < 0 || c >= SC_MAX) continue;
		if (!strcmp(op, "open") && sc_fd[c] < 0) {
			int one = 1;
			sc_fd[c] = socket(AF_INET, SOCK_STREAM, 0);
			if (connect(sc_fd[c], (struct sockaddr *)&sin, sizeof(sin)) < 0) { perror("connect"); exit(3); }
			setsockopt(sc_fd[c], IPPROTO_TCP, TCP_NODELAY, &one, sizeof(one)); set_nonblock(sc_fd[c]);
			ev_put("open", c, 0);
		} else if (!strcmp(op, "send") && sc_fd[c] >= 0) {
			ev_put("send", c, (int)st->items[3]->i);
			if (send(sc_fd[c], st->items[2]->str, st->items[2]->slen, MSG_NOSIGNAL) < 0) { /* peer already gone */ }
		} else if (!strcmp(op, "pclose") && sc_fd[c] >= 0) {
			struct linger lg = { 1, 0 };
			ev_put("pclose", c, 0);
			sc_drain();
			setsockopt(sc_fd[c], SOL_SOCKET, SO_LINGER, &lg, sizeof(lg)); close(sc_fd[c]); sc_fd[c] = -2;
		} else if (!strcmp(op, "reply")) {
			ev_put("reply", c, 0);
			if (sc_held[c]) { struct evhttp_request *r = sc_held[c]; sc_held[c] = NULL; sc_do_reply(r, c, sc_held_k[c], sc_held_chunked[c]); }
		}
		sc_settle();
	}
	for (c = 0; c < SC_MAX; c++) {
		if (sc_fd[c] == -1) continue;
			fprintf(evlog, "%s[\"st\",%d,", nev++ ? "," : "", c);
		log_statuses(evlog, sc_buf[c] ? sc_buf[c] : "", sc_len[c]);
		fprintf(evlog, ",%d]", sc_eof[c]);
	}
	/* teardown: answer what is still held, drop every client, wait for the server to free its connections */
	for (c = 0; c < SC_MAX; c++) if (sc_held[c]) { struct evhttp_request *r = sc_held[c]; sc_held[c] = NULL; evhttp_send_reply(r, 200, "OK", NULL); }
	for (c = 0; c < SC_MAX; c++) if (sc_fd[c] >= 0) { struct linger lg = { 1, 0 }; setsockopt(sc_fd[c], SOL_SOCKET, SO_LINGER, &lg, sizeof(lg)); close(sc_fd[c]); sc_fd[c] = -1; }
	cfd = -1; cli_eof = 1;
	wait_until(srv_dead);
	evhttp_set_max_connections(http, 0);
	evhttp_set_gencb(http, gen_cb, NULL);
	for (c = 0; c < SC_MAX; c++) { free(sc_buf[c]); sc_buf[c] = NULL; }
	fflush(evlog);
	fprintf(f, "{\"ev\":[%.*s],\"hang\":%d}", (int)elen, ebuf ? ebuf : "", hang);
	fclose(evlog); free(ebuf); evlog = NULL;
}

/* ---- scenario */
struct obs { char *s; size_t n; int *idx; int nidx; };

static void run_scenario(jval *sc, FILE *out)
{
	const char *mode = j_str(sc, "mode", "server");
	jval *bytes = j_get(sc, "bytes"), *segs = j_get(sc, "segs"), *cfg = j_get(sc, "cfg");
	struct obs *obs = NULL; int nobs = 0;
	size_t i; int k;
	hang = 0; scen_maxbuf = 0;
	if (!strcmp(mode, "clientfault")) { client_fault_run(out, sc); fputc('\n', out); return; }
	if (!strcmp(mode, "srvscript")) { server_script_run(out, sc); fputc('\n', out); return; }
	if (!bytes || bytes->t != J_STR || !segs) { fprintf(out, "{\"err\":\"bad scenario\"}\n"); return; }
	reply_spec = j_get(sc, "reply"); route_spec = j_get(sc, "route");
	if (reply_spec && j_get(reply_spec, "dct")) {   /* C26: evhttp_set_default_content_type(value | NULL); the string is not copied */
		jval *d = j_get(reply_spec, "dct");
		evhttp_set_default_content_type(http, d->t == J_STR ? d->str : NULL);
	}
	if (!strcmp(mode, "server") && route_spec) route_build(route_spec);
	if (!strcmp(mode, "server")) apply_server_cfg(cfg);
	for (i = 0; i < segs->n && !hang; i++) {
		char *ob = NULL; size_t on = 0;
		FILE *f = open_memstream(&ob, &on);
		if (!strcmp(mode, "server"))
			server_run(f, bytes->str, bytes->slen, segs->items[i], (int)j_int(sc, "eof", 1));
		else
			client_run(f, bytes->str, bytes->slen, segs->items[i], j_get(sc, "reqs"), cfg, (int)j_int(sc, "eof", 0));
		fclose(f);
		for (k = 0; k < nobs; k++) if (obs[k].n == on && !memcmp(obs[k].s, ob, on)) break;
		if (k == nobs) {
			obs = realloc(obs, (nobs + 1) * sizeof(*obs));
			obs[nobs].s = ob; obs[nobs].n = on; obs[nobs].idx = NULL; obs[nobs].nidx = 0; nobs++;
		} else free(ob);
		obs[k].idx = realloc(obs[k].idx, (obs[k].nidx + 1) * sizeof(int));
		obs[k].idx[obs[k].nidx++] = (int)i;
	}
	evhttp_set_default_content_type(http, "text/html; charset=ISO-8859-1");   /* library default again */
	if (!strcmp(mode, "server") && route_spec) route_destroy();
	fprintf(out, "{\"runs\":[");
	for (k = 0; k < nobs; k++) {
		int j;
		fprintf(out, "%s{\"o\":%.*s,\"segs\":[", k ? "," : "", (int)obs[k].n, obs[k].s);
		for (j = 0; j < obs[k].nidx; j++) fprintf(out, "%s%d", j ? "," : "", obs[k].idx[j]);
		fprintf(out, "]}");
		free(obs[k].s); free(obs[k].idx);
	}
	fprintf(out, "],\"maxbuf\":%zu,\"hang\":%d}\n", scen_maxbuf, hang);
	free(obs);
}

int main(int argc, char **argv)
{
	char *line;
	signal(SIGPIPE, SIG_IGN);
	event_set_log_callback(quiet_log);
	base = event_base_new();
	server_init();
	client_init();
	while ((line = j_readline(stdin))) {
		if (line[0]) {
			jval *sc = j_parse(line);
			char *mbuf = NULL; size_t mlen = 0;
			FILE *out = open_memstream(&mbuf, &mlen);
			run_scenario(sc, out);
			fclose(out);
			fwrite(mbuf, 1, mlen, stdout);
			fflush(stdout);
			free(mbuf);
			j_free_all();
		}
		free(line);
	}
	return 0;
}
