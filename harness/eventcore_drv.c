/* Driver for specs/EventCore.tla (binding G).
 * stdin: one scenario per line {"cfg":{...},"h":[step,...]}; each step is an
 * op record of the specification.  For every step the driver performs the op
 * on the real library and prints the observation; the Python side compares it
 * with the specification's prediction.
 * stdout: one line per scenario {"obs":[obs,...]}.
 */
#include <event2/event.h>
#include <event2/event_struct.h>
#include <event2/watch.h>
#include <event2/util.h>
#include "event-internal.h"
#include "defer-internal.h"
#include <signal.h>
#include <unistd.h>
#include <fcntl.h>
#include <errno.h>
#include <sys/wait.h>
#include <dirent.h>
#include <event2/thread.h>
#include "mjson.h"
#include "vclock.h"
#include "lockrec.h"

#define NEV 13            /* slots: 1..5 = ids 1..5, 6..13 = extra timers with ids 11..18 */
#define SLOT(id) ((id) <= 5 ? (id) : (id) - 5)
#define EVID(slot) ((slot) <= 5 ? (slot) : (slot) + 5)
static int nev = 5;       /* slots in use (5 + cfg.nx) */
#define NW 3
#define BASE_NS (1000LL * 1000000000LL)

static struct event_base *base;
static struct event *ev[NEV + 1];
static int alloc[NEV + 1], finreq[NEV + 1];
static jval *script[NEV + 1];
static int pipes[3][2], fed[3];
static int in_child;
static char *child_json;
static const struct timeval *ctv[3];
static int64_t tick_ns;
static int nprio, maxiter;
static const char *pol;
static int loop_waits, blocked, forced;
static FILE *out;
/* callback log of the current loop call */
static char cblog[1 << 17];
static size_t cblen;
static int cbfirst, ncblog;
/* watchers */
struct wrec { int id; int kind; /* 0 prep 1 check */ const char *s; struct evwatch *w; };
static struct wrec watch[16];
static int nwatch;

static int exec_op(jval *op, int incb);

/* kernel registrations of every epoll instance this process holds: "tfd:events;" sorted (C11: the parent's
 * registrations must not change because a forked child re-initialised its copy of the base) */
static int cmp_str(const void *a, const void *b) { return strcmp(*(char *const *)a, *(char *const *)b); }
static char *epoll_snapshot(void)
{
	DIR *d = opendir("/proc/self/fd");
	struct dirent *de;
	char *items[512]; int n = 0, i;
	char *out; size_t len = 1;
	if (!d) return strdup("?");
	while ((de = readdir(d)) && n < 500) {
		char path[64], link[64], line[256]; ssize_t l; FILE *f;
		if (de->d_name[0] == '.') continue;
		snprintf(path, sizeof path, "/proc/self/fd/%s", de->d_name);
		l = readlink(path, link, sizeof link - 1);
		if (l <= 0) continue;
		link[l] = 0;
		if (!strstr(link, "eventpoll")) continue;
		snprintf(path, sizeof path, "/proc/self/fdinfo/%s", de->d_name);
		f = fopen(path, "r");
		if (!f) continue;
		while (fgets(line, sizeof line, f)) {
			int tfd; unsigned ev;
			if (sscanf(line, "tfd: %d events: %x", &tfd, &ev) == 2 && n < 500) {
				char b[64]; snprintf(b, sizeof b, "%d:%x;", tfd, ev);
				items[n++] = strdup(b);
			}
		}
		fclose(f);
	}
	closedir(d);
	qsort(items, n, sizeof items[0], cmp_str);
	for (i = 0; i < n; i++) len += strlen(items[i]);
	out = malloc(len); out[0] = 0;
	for (i = 0; i < n; i++) { strcat(out, items[i]); free(items[i]); }
	return out;
}

#define NDMAX 64
static struct event_callback dcb[NDMAX];
static int nd;

/* n-th allocation fails (C08/C14-style fault injection); 0 = off */
static long af_countdown, af_total;
/* C10 resource balance: blocks handed out by / returned to the library's allocator, and whether a fault fired */
static long af_live, af_fired;
static void *af_malloc(size_t n) { void *m; af_total++; if (af_countdown && --af_countdown == 0) { af_fired = 1; return NULL; } m = malloc(n); if (m) af_live++; return m; }
static void *af_realloc(void *p, size_t n) { void *m; af_total++; if (af_countdown && --af_countdown == 0) { af_fired = 1; return NULL; } m = realloc(p, n); if (m && !p) af_live++; return m; }
static void af_free(void *p) { if (p) af_live--; free(p); }
static long live0; static int fds0;
static int count_fds(void)
{
	int n = 0, fd;
	for (fd = 0; fd < 1024; fd++) if (fcntl(fd, F_GETFD) != -1) n++;
	return n;
}
static void nop_cb(evutil_socket_t fd, short what, void *arg) { (void)fd; (void)what; (void)arg; }


static void logcb(int e, long r, const char *k)
{
	cblen += snprintf(cblog + cblen, sizeof(cblog) - cblen, "%s{\"e\":%d,\"r\":%ld,\"k\":\"%s\"}",
	    cbfirst ? "" : ",", e, r, k);
	cbfirst = 0;
	ncblog++;
}

static int kind_sig(int e) { return e == 5; }

/* number of once-events (loopexit / event_base_once) still owned by the base */
static int count_foreign_cb(const struct event_base *b, const struct event *e, void *arg)
{
	int i;
	if (e->ev_flags & EVLIST_INTERNAL) return 0;
	for (i = 1; i <= NEV; i++) if (alloc[i] && e == ev[i]) return 0;
	++*(int *)arg;
	return 0;
}
static int n_once(void)
{
	int n = 0;
	event_base_foreach_event(base, count_foreign_cb, &n);
	return n;
}

static int script_legal(jval *op, int self)
{
	const char *a = j_str(op, "a", "none");
	int e = SLOT((int)j_int(op, "e", 0));
	if (!strcmp(a, "none")) return 0;
	if (!strcmp(a, "free"))
		return alloc[e] && finreq[e] != 1 && finreq[e] != 2 && !(self == e && kind_sig(e));
	if (!strcmp(a, "add") || !strcmp(a, "del") || !strcmp(a, "rmt") || !strcmp(a, "prio"))
		return alloc[e];
	if (!strcmp(a, "act")) return alloc[e] && !(self == e && kind_sig(e));
	if (!strcmp(a, "later")) return alloc[e] && !finreq[e];
	if (!strcmp(a, "fin")) return alloc[e] && !finreq[e];
	if (!strcmp(a, "exit") || !strcmp(a, "once")) return n_once() < 2;
	return 1;
}

static void run_script(int e)
{
	jval *sc = script[e];
	if (sc && script_legal(sc, e))
		exec_op(sc, e);
}

static void cb(evutil_socket_t fd, short what, void *arg)
{
	int e = (int)(intptr_t)arg;      /* slot */
	lockrec_cb_enter();
	logcb(EVID(e), what, "cb");
	run_script(e);
	lockrec_cb_exit();
	if (ncblog >= 12 && base) { forced = 1; event_base_loopbreak(base); }
}
static void deferred_fn(struct event_callback *evcb, void *arg)
{
	lockrec_cb_enter();
	logcb(21 + (int)(intptr_t)arg, 0, "def");
	lockrec_cb_exit();
}
static void once_cb(evutil_socket_t fd, short what, void *arg)
{
	lockrec_cb_enter();
	logcb(9, what, "once");
	lockrec_cb_exit();
}
static void fin_cb(struct event *e_, void *arg)
{
	int e = (int)(intptr_t)arg;      /* slot */
	lockrec_cb_enter();
	lockrec_cb_exit();
	logcb(EVID(e), 64, "fin");
	if (finreq[e] == 2) { alloc[e] = 0; script[e] = NULL; finreq[e] = 0; } /* free_finalize: memory is released */
	else finreq[e] = 3; /* finalizer has run; event_free is legal again */
}

/* ---- watchers */
static int wfind(int id) { for (int i = 0; i < nwatch; i++) if (watch[i].id == id) return i; return -1; }
static void wremove(int idx) { evwatch_free(watch[idx].w); memmove(&watch[idx], &watch[idx + 1], (nwatch - idx - 1) * sizeof(watch[0])); nwatch--; }
static void prep_cb(struct evwatch *w, const struct evwatch_prepare_cb_info *info, void *arg);
static void check_cb(struct evwatch *w, const struct evwatch_check_cb_info *info, void *arg);
static void wadd(int id, int kind, const char *s)
{
	struct wrec *r = &watch[nwatch++];
	r->id = id; r->kind = kind; r->s = s;
	r->w = kind == 0 ? evwatch_prepare_new(base, prep_cb, (void *)(intptr_t)id)
			 : evwatch_check_new(base, check_cb, (void *)(intptr_t)id);
	if (!r->w) nwatch--;
}
static void ticks_to_tv(long long t, struct timeval *tv);
static void wscript(int id)
{
	int idx = wfind(id), i, kpos = -1, prev = -1, next = -1;
	const char *s;
	if (idx < 0) return;
	s = watch[idx].s;
	for (i = 0; i < nwatch; i++) {
		if (watch[i].kind != watch[idx].kind) continue;
		if (i < idx) prev = i;
		if (i > idx && next < 0) next = i;
	}
	(void)kpos;
	if (!strcmp(s, "self")) wremove(idx);
	else if (!strcmp(s, "next")) { if (next >= 0) wremove(next); }
	else if (!strcmp(s, "prev")) { if (prev >= 0) wremove(prev); }
	else if (!strcmp(s, "new")) { if (id + 1 <= NW && wfind(id + 1) < 0) wadd(id + 1, watch[idx].kind, "none"); }
	else if (!strcmp(s, "add1")) { struct timeval tv; if (alloc[SLOT(3)]) { ticks_to_tv(1, &tv); event_add(ev[SLOT(3)], &tv); } }
	else if (!strcmp(s, "act4")) { if (alloc[SLOT(4)]) event_active(ev[SLOT(4)], 2, 1); }
	else if (!strcmp(s, "del3")) { if (alloc[SLOT(3)]) event_del(ev[SLOT(3)]); }
}
static void prep_cb(struct evwatch *w, const struct evwatch_prepare_cb_info *info, void *arg)
{
	int id = (int)(intptr_t)arg;
	struct timeval tv;
	long r = -1;
	if (evwatch_prepare_get_timeout(info, &tv))
		r = (long)(((int64_t)tv.tv_sec * 1000000000LL + (int64_t)tv.tv_usec * 1000) / tick_ns);
	lockrec_cb_enter();
	logcb(100 + id, r, "prep");
	wscript(id);
	lockrec_cb_exit();
}
static void check_cb(struct evwatch *w, const struct evwatch_check_cb_info *info, void *arg)
{
	int id = (int)(intptr_t)arg;
	lockrec_cb_enter();
	logcb(100 + id, 0, "check");
	wscript(id);
	lockrec_cb_exit();
}

/* ---- clock policy */
static int pre_wait(int64_t tns)
{
	loop_waits++;
	if (loop_waits > maxiter) {
		forced = 1;
		event_base_loopbreak(base);
		return 1;
	}
	return 0;
}
static int64_t wait_policy(int64_t tns)
{
	if (tns < 0) {
		blocked = 1;
		event_base_loopbreak(base);
		return 0;
	}
	if (!strcmp(pol, "over")) return tns + tick_ns;
	if (!strcmp(pol, "short")) return tns > tick_ns ? tns - tick_ns : tns;
	return tns;
}

static void ticks_to_tv(long long t, struct timeval *tv)
{
	int64_t ns = t * tick_ns;
	tv->tv_sec = ns / 1000000000LL;
	tv->tv_usec = (ns % 1000000000LL) / 1000;
}

static struct event *mkevent(int e)
{
	void *arg = (void *)(intptr_t)e;
	switch (e) {
	case 1: return event_new(base, pipes[1][0], EV_READ | EV_PERSIST, cb, arg);
	case 2: return event_new(base, pipes[2][0], EV_READ, cb, arg);
	case 3: return event_new(base, -1, 0, cb, arg);
	case 4: return event_new(base, -1, EV_PERSIST, cb, arg);
	case 5: return event_new(base, SIGUSR1, EV_SIGNAL | EV_PERSIST, cb, arg);
	default: if (e > 5 && e <= NEV) return event_new(base, -1, 0, cb, arg);
	}
	return NULL;
}

static int exec_op_inner(jval *op, int incb);
static int exec_op(jval *op, int incb)
{
	const char *a = j_str(op, "a", "none");
	int r;
	lockrec_api_enter(a);
	r = exec_op_inner(op, incb);
	lockrec_api_return(a);
	return r;
}
static int exec_op_inner(jval *op, int incb)
{
	const char *a = j_str(op, "a", "none");
	int e = (int)j_int(op, "e", 0);
	if (strncmp(a, "w", 1)) e = SLOT(e);   /* watcher ops carry a watcher id, not an event id */
	struct timeval tv;
	if (!strcmp(a, "none")) return 0;
	if (!strcmp(a, "allocfail")) { af_countdown = j_int(op, "n", 0); return 0; }
	if (!strcmp(a, "oncebad")) { /* calls the API is coded to reject or that fail in the backend */
		int k = (int)j_int(op, "n", 0), fd, r = 0;
		struct timeval one = {1, 0};
		switch (k) {
		case 0: fd = open("/etc/passwd", O_RDONLY); r = event_base_once(base, fd, EV_READ, nop_cb, NULL, NULL); close(fd); break; /* epoll_ctl: EPERM */
		case 1: r = event_base_once(base, -1, EV_SIGNAL, nop_cb, NULL, NULL); break;
		case 2: r = event_base_once(base, -1, EV_TIMEOUT | EV_PERSIST, nop_cb, NULL, &one); break;
		case 3: r = event_base_once(base, -1, 0, nop_cb, NULL, NULL); break;
		case 4: r = event_base_once(base, 1000000, EV_READ, nop_cb, NULL, NULL); break; /* EBADF */
		case 5: r = event_base_loopbreak(NULL); break;
		case 6: r = event_base_loopcontinue(NULL); break;
		case 7: { struct event *x = event_new(base, 1000000, EV_READ, nop_cb, NULL); if (x) { r = event_add(x, NULL); event_free(x); } break; }
		case 8: { struct event *x = event_new(base, SIGUSR2, EV_SIGNAL | EV_READ, nop_cb, NULL); r = x ? 1 : 0; if (x) event_free(x); break; }
		case 9: r = event_base_priority_init(base, 0); break;
		case 11: { /* an fd closed while its event is still added: select()/poll() fail or report it; the loop call must
			    * still return with the lock state it was entered with */
			int pp[2]; struct event *x;
			if (pipe(pp) == 0) {
				x = event_new(base, pp[0], EV_READ | EV_PERSIST, nop_cb, NULL);
				if (x) {
					event_add(x, NULL);
					close(pp[0]);
					pol = "exact"; loop_waits = 0; blocked = 0; forced = 0;
					r = event_base_loop(base, EVLOOP_NONBLOCK);
					event_del(x); event_free(x);
				} else close(pp[0]);
				close(pp[1]);
			}
			break; }
		case 10: { fd = open("/etc/passwd", O_RDONLY); struct event *x = event_new(base, fd, EV_READ | EV_PERSIST, nop_cb, NULL); if (x) { r = event_add(x, &one); event_free(x); } close(fd); break; }
		}
		return r;
	}
	if (e >= 1 && e <= NEV && strcmp(a, "new") && strcmp(a, "script") && strcmp(a, "feed") && strcmp(a, "drain") && !ev[e] && strcmp(a, "wnew") && strcmp(a, "wfree")) return -97; /* event_new failed earlier (fault injection) */
	if (!strcmp(a, "new")) { ev[e] = mkevent(e); alloc[e] = ev[e] != NULL; finreq[e] = 0; return ev[e] ? 0 : -1; }
	if (!strcmp(a, "free")) { event_free(ev[e]); ev[e] = NULL; alloc[e] = 0; script[e] = NULL; finreq[e] = 0; return 0; }
	if (!strcmp(a, "add")) {
		long long t = j_int(op, "t", -1);
		if (t < 0) return event_add(ev[e], NULL);
		ticks_to_tv(t, &tv);
		return event_add(ev[e], &tv);
	}
	if (!strcmp(a, "addc")) return event_add(ev[e], ctv[j_int(op, "q", 1)]);
	if (!strcmp(a, "initc")) {
		int q = (int)j_int(op, "q", 1);
		ticks_to_tv(j_int(op, "t", 0), &tv);
		ctv[q] = event_base_init_common_timeout(base, &tv);
		return ctv[q] ? 0 : -1;
	}
	if (!strcmp(a, "del")) return event_del(ev[e]);
	if (!strcmp(a, "rmt")) return event_remove_timer(ev[e]);
	if (!strcmp(a, "act")) { event_active(ev[e], (int)j_int(op, "r", 0), (short)j_int(op, "n", 1)); return 0; }
	if (!strcmp(a, "later")) { event_active_later_(ev[e], (int)j_int(op, "r", 0)); return 0; }
	if (!strcmp(a, "prio")) return event_priority_set(ev[e], (int)j_int(op, "p", 0));
	if (!strcmp(a, "fin")) {
		int fr = (int)j_int(op, "n", 0);
		finreq[e] = fr ? 2 : 1;
		return fr ? event_free_finalize(0, ev[e], fin_cb) : event_finalize(0, ev[e], fin_cb);
	}
	if (!strcmp(a, "exit")) {
		long long t = j_int(op, "t", 0);
		ticks_to_tv(t, &tv);
		return event_base_loopexit(base, t <= 0 ? NULL : &tv);
	}
	if (!strcmp(a, "once")) {
		long long t = j_int(op, "t", 0);
		ticks_to_tv(t, &tv);
		return event_base_once(base, -1, EV_TIMEOUT, once_cb, NULL, &tv);
	}
	if (!strcmp(a, "defer")) {
		int k, n = (int)j_int(op, "n", 1);
		for (k = 0; k < n && k < nd; k++) event_deferred_cb_schedule_(base, &dcb[k]);
		return 0;
	}
	if (!strcmp(a, "break")) return event_base_loopbreak(base);
	if (!strcmp(a, "cont")) return event_base_loopcontinue(base);
	if (!strcmp(a, "maxclr")) { event_base_get_max_events(base, (unsigned)j_int(op, "n", 0), 1); return 0; }
	if (!strcmp(a, "feed")) { char c = 'x'; fed[e] = 1; return write(pipes[e][1], &c, 1) == 1 ? 0 : -1; }
	if (!strcmp(a, "drain")) { char b[64]; fed[e] = 0; while (read(pipes[e][0], b, sizeof b) > 0) ; return 0; }
	if (!strcmp(a, "raise")) {
		/* only while libevent's handler is installed (after an injected allocation failure the add of the
		 * signal event may have failed: the default disposition would kill the driver) */
		struct sigaction sa; sigset_t cur;
		sigemptyset(&cur); sigprocmask(SIG_BLOCK, NULL, &cur);
		if (sigaction(SIGUSR1, NULL, &sa) == 0 && sa.sa_handler == SIG_DFL && !sigismember(&cur, SIGUSR1)) return -96; /* (signalfd keeps it blocked) */
		raise(SIGUSR1); return 0;
	}
	if (!strcmp(a, "adv")) { vt_now_ns += j_int(op, "t", 0) * tick_ns; return 0; }
	if (!strcmp(a, "upd")) return event_base_update_cache_time(base);
	if (!strcmp(a, "script")) { script[e] = j_get(op, "s"); return 0; }
	if (!strcmp(a, "wnew")) { wadd(e, !strcmp(j_str(op, "k", "prep"), "check"), j_str(op, "s", "none")); return 0; }
	if (!strcmp(a, "wfree")) { int i = wfind(e); if (i >= 0) wremove(i); return 0; }
	if (!strcmp(a, "basefree")) {
		int i;
		cblen = 0; cbfirst = 1; cblog[0] = 0; ncblog = 0;
		while (nwatch) wremove(0);
		if (j_int(op, "n", 1)) event_base_free(base); else event_base_free_nofinalize(base);
		base = NULL;
		for (i = 1; i <= NEV; i++)	/* a pending event_finalize() that never ran leaves the memory with us */
			if (alloc[i] && finreq[i] == 2) { af_free(ev[i]); alloc[i] = 0; }
		return 0;
	}
	if (!strcmp(a, "loop")) {
		int f = (int)j_int(op, "f", 1), fl = 0, r;
		if (f & 1) fl |= EVLOOP_ONCE;
		if (f & 2) fl |= EVLOOP_NONBLOCK;
		if (f & 4) fl |= EVLOOP_NO_EXIT_ON_EMPTY;
		pol = j_str(op, "pol", "exact");
		loop_waits = 0; blocked = 0; forced = 0; cblen = 0; cbfirst = 1; cblog[0] = 0; ncblog = 0;
		r = event_base_loop(base, fl);
		return r;
	}
	fprintf(stderr, "unknown op %s\n", a);
	return -98;
}

static void print_obs(int r, int is_loop)
{
	int i;
	fprintf(out, "{\"r\":%d,\"p\":[", r);
	long long dl[NEV + 1];
	for (i = 1; i <= nev; i++) {
		int p = -1;
		dl[i] = -1;
		if (alloc[i]) {
			struct timeval tv = {0, 0};
			p = event_pending(ev[i], EV_TIMEOUT | EV_READ | EV_WRITE | EV_SIGNAL, &tv);
			if ((p & EV_TIMEOUT) && (ev[i]->ev_flags & EVLIST_TIMEOUT)) {
				int64_t ns = (int64_t)tv.tv_sec * 1000000000LL + (int64_t)tv.tv_usec * 1000 - vt_wall_offset_ns - BASE_NS;
				dl[i] = (ns % tick_ns == 0) ? ns / tick_ns : -777;
			}
			/* the single-flag queries must agree with the combined one */
			if (!!event_pending(ev[i], EV_TIMEOUT, NULL) != !!(p & EV_TIMEOUT) ||
			    !!event_pending(ev[i], EV_READ, NULL) != !!(p & EV_READ) ||
			    !!event_pending(ev[i], EV_SIGNAL, NULL) != !!(p & EV_SIGNAL) ||
			    !event_initialized(ev[i]))
				p = -555;
		}
		fprintf(out, "%s%d", i > 1 ? "," : "", p);
	}
	fprintf(out, "],\"d\":[");
	for (i = 1; i <= nev; i++) fprintf(out, "%s%lld", i > 1 ? "," : "", dl[i]);
	fprintf(out, "],\"pr\":[");
	for (i = 1; i <= nev; i++) fprintf(out, "%s%d", i > 1 ? "," : "", alloc[i] ? event_get_priority(ev[i]) : -1);
	{
		int na = event_base_get_num_events(base, EVENT_BASE_COUNT_ACTIVE);
		int ne = event_base_get_num_events(base, EVENT_BASE_COUNT_ADDED);
		int nv = event_base_get_num_events(base, EVENT_BASE_COUNT_VIRTUAL);
		int all = event_base_get_num_events(base, EVENT_BASE_COUNT_ACTIVE | EVENT_BASE_COUNT_ADDED | EVENT_BASE_COUNT_VIRTUAL);
		int an = event_base_get_num_events(base, EVENT_BASE_COUNT_ACTIVE | EVENT_BASE_COUNT_ADDED);
		if (nv != 0 || all != na + ne || an != na + ne) na = -555;
		fprintf(out, "],\"na\":%d,\"ne\":%d,\"ma\":%d,\"me\":%d", na, ne,
		    event_base_get_max_events(base, EVENT_BASE_COUNT_ACTIVE, 0),
		    event_base_get_max_events(base, EVENT_BASE_COUNT_ADDED, 0));
	}
	fprintf(out, ",\"gb\":%d,\"ge\":%d", event_base_got_break(base), event_base_got_exit(base));
	if (is_loop)
		fprintf(out, ",\"cb\":[%s],\"bl\":%d,\"it\":%d", cblog, blocked, loop_waits > maxiter ? maxiter + 1 : loop_waits);
	fprintf(out, "}");
}

static void quiet_log(int sev, const char *msg) { (void)sev; (void)msg; }

static void run_scenario(jval *sc)
{
	jval *cfg = j_get(sc, "cfg"), *h = j_get(sc, "h"), *pre;
	struct event_config *ec = event_config_new();
	const char *backend = j_str(cfg, "backend", "epoll");
	static const char *methods[] = {"epoll", "poll", "select", NULL};
	int i, maxcb, limitprio;
	size_t k;

	lockrec_reset(j_str(cfg, "sid", "0"));
	af_total = 0; af_fired = 0;
	af_countdown = j_int(cfg, "allocfail0", 0);   /* fail the n-th allocation counted from base creation */
	nev = 5 + (int)j_int(cfg, "nx", 0);
	if (nev > NEV) nev = NEV;
	tick_ns = j_int(cfg, "tick_ns", 1000);
	nprio = (int)j_int(cfg, "nprio", 3);
	maxiter = (int)j_int(cfg, "maxiter", 4);
	maxcb = (int)j_int(cfg, "maxcb", 0);
	limitprio = (int)j_int(cfg, "limitprio", 1);
	vt_now_ns = BASE_NS;
	vt_would_block = 0;
	vt_wait_policy = wait_policy;
	vt_pre_wait = pre_wait;
	fed[1] = fed[2] = 0;
	memset(alloc, 0, sizeof alloc); memset(finreq, 0, sizeof finreq);
	memset(script, 0, sizeof script); memset(ev, 0, sizeof ev);
	ctv[1] = ctv[2] = NULL; nwatch = 0;
	for (i = 1; i <= 2; i++) {
		if (pipe(pipes[i]) < 0) { perror("pipe"); exit(3); }
		evutil_make_socket_nonblocking(pipes[i][0]);
		evutil_make_socket_nonblocking(pipes[i][1]);
	}
	for (i = 0; methods[i]; i++)
		if (strcmp(methods[i], backend)) event_config_avoid_method(ec, methods[i]);
	if (j_int(cfg, "changelist", 0)) event_config_set_flag(ec, EVENT_BASE_FLAG_EPOLL_USE_CHANGELIST);
	if (j_int(cfg, "signalfd", 0)) event_config_set_flag(ec, EVENT_BASE_FLAG_USE_SIGNALFD);
	{
		long long mi = j_int(cfg, "maxintv", -1);
		if (mi >= 0) {
			struct timeval itv;
			long long ns = mi * tick_ns;
			itv.tv_sec = ns / 1000000000LL; itv.tv_usec = (ns % 1000000000LL) / 1000;
			event_config_set_max_dispatch_interval(ec, &itv, maxcb > 0 ? maxcb : -1, limitprio);
		} else if (maxcb > 0) event_config_set_max_dispatch_interval(ec, NULL, maxcb, limitprio);
	}
	lockrec_api_enter("base_new");
	base = event_base_new_with_config(ec);
	lockrec_api_return("base_new");
	event_config_free(ec);
	if (!base) {
		af_countdown = 0;
		for (i = 1; i <= 2; i++) { close(pipes[i][0]); close(pipes[i][1]); }
		fprintf(out, "{\"obs\":[],\"err\":\"no base\"}\n"); return;
	}
	if (event_base_priority_init(base, nprio) != 0) {
		/* allocation fault: the base has no usable queues; a program must give up here
		 * (the base is abandoned, not freed: freeing it would free the old queue array twice) */
		af_countdown = 0; base = NULL;
		for (i = 1; i <= 2; i++) { close(pipes[i][0]); close(pipes[i][1]); }
		fprintf(out, "{\"obs\":[],\"err\":\"priority_init failed\"}\n"); return;
	}
	nd = (int)j_int(cfg, "nd", 0);
	if (nd > NDMAX) nd = NDMAX;
	for (i = 0; i < nd; i++) event_deferred_cb_init_(&dcb[i], (ev_uint8_t)(nprio / 2), deferred_fn, (void *)(intptr_t)i);
	pre = j_get(cfg, "prealloc");
	for (k = 0; pre && k < pre->n; k++) {
		int e = SLOT((int)pre->items[k]->i);
		ev[e] = mkevent(e); alloc[e] = ev[e] != NULL;
	}
	fprintf(out, "{\"obs\":[");
	for (k = 0; h && k < h->n; k++) {
		jval *op = h->items[k];
		int isloop = !strcmp(j_str(op, "a", ""), "loop");
		int r;
		if (!strcmp(j_str(op, "a", ""), "fork") && !in_child) {
			/* C11: the child re-initialises the base and runs the rest of the scenario first
			 * (its observations come back through a pipe); then the parent continues. */
			int pp[2]; pid_t pid; char *cbuf = NULL; size_t clen = 0, ccap = 0; ssize_t n; int st;
			char *snap0 = epoll_snapshot(), *snap1;
			if (pipe(pp) < 0) { perror("pipe"); exit(3); }
			fflush(NULL);
			pid = fork();
			if (pid == 0) {
				FILE *co = fdopen(pp[1], "w");
				close(pp[0]);
				in_child = 1;
				out = co;
				r = event_reinit(base);
				fprintf(out, "[");
				print_obs(r, 0);
				event_base_assert_ok_(base);
				for (k = k + 1; k < h->n; k++) {
					jval *op2 = h->items[k];
					int isl = !strcmp(j_str(op2, "a", ""), "loop");
					int r2 = exec_op(op2, 0);
					fputc(',', out);
					if (!base) { fprintf(out, "{\"r\":%d,\"cb\":[%s]}", r2, cblog); break; }
					print_obs(r2, isl);
					event_base_assert_ok_(base);
				}
				fprintf(out, "]");
				fflush(out);
				_exit(0);
			}
			close(pp[1]);
			for (;;) {
				if (clen + 4096 > ccap) { ccap = ccap ? ccap * 2 : 65536; cbuf = realloc(cbuf, ccap); }
				n = read(pp[0], cbuf + clen, 4096);
				if (n <= 0) break;
				clen += (size_t)n;
			}
			close(pp[0]);
			waitpid(pid, &st, 0);
			if (cbuf) cbuf[clen] = 0;
			if (!WIFEXITED(st) || WEXITSTATUS(st) != 0 || !clen) {
				child_json = strdup("{\"crash\":\"child died\"}");
			} else child_json = strdup(cbuf);
			free(cbuf);
			/* undo what the child did to the pipes we share with it */
			{ int e; for (e = 1; e <= 2; e++) { char b[64], c = 'x'; while (read(pipes[e][0], b, sizeof b) > 0) ; if (fed[e]) { if (write(pipes[e][1], &c, 1) != 1) perror("write"); } } }
			/* r = 0 iff the parent's kernel registrations are what they were before the fork */
			snap1 = epoll_snapshot();
			r = strcmp(snap0, snap1) ? -5 : 0;
			if (r) fprintf(stderr, "parent epoll registrations changed: before=%s after=%s\n", snap0, snap1);
			free(snap0); free(snap1);
			if (k) fputc(',', out);
			lockrec_api_enter("observe");
			print_obs(r, 0);
			lockrec_api_return("observe");
			continue;
		}
		r = exec_op(op, 0);
		if (k) fputc(',', out);
		if (!base) { fprintf(out, "{\"r\":%d,\"cb\":[%s]}", r, cblog); break; }
		lockrec_api_enter("observe");
		print_obs(r, isloop);
		event_base_assert_ok_(base);
		lockrec_api_return("observe");
	}
	fprintf(out, "],\"allocs\":%ld", af_total);
	if (child_json) { fprintf(out, ",\"child\":%s", child_json); free(child_json); child_json = NULL; }
	/* teardown (the line is only emitted afterwards, so that a crash in the
	 * teardown is attributed to this scenario) */
	af_countdown = 0;
	lockrec_api_enter("teardown");
	if (base) {
		for (i = 0; i < nd; i++) event_deferred_cb_cancel_(base, &dcb[i]);
		for (i = 1; i <= NEV; i++)
			if (alloc[i] && finreq[i] != 1 && finreq[i] != 2) { event_free(ev[i]); alloc[i] = 0; }
		while (nwatch) wremove(0);
		event_base_free(base); /* runs pending finalizers */
	}
	lockrec_api_return("teardown");
	for (i = 1; i <= NEV; i++)
		if (alloc[i]) { af_free(ev[i]); alloc[i] = 0; }
	base = NULL;
	for (i = 1; i <= 2; i++) { close(pipes[i][0]); close(pipes[i][1]); }
	/* C10: after the events are released and the base is freed nothing the library allocated remains
	 * (memory through its allocator, descriptors in the fd table); not judged when an allocation fault fired */
	fprintf(out, ",\"leak\":{\"m\":%ld,\"fd\":%d,\"judged\":%d}}\n", af_live - live0, count_fds() - fds0, af_fired ? 0 : 1);
}

int main(int argc, char **argv)
{
	char *line;
	out = stdout;
	event_set_log_callback(quiet_log);
	event_set_mem_functions(af_malloc, af_realloc, af_free);
	lockrec_install();
	if (getenv("VERIF_THREADS")) evthread_use_pthreads();   /* the base then owns a wake-up (notify) fd */
	signal(SIGPIPE, SIG_IGN);
	while ((line = j_readline(stdin))) {
		if (line[0]) {
			jval *sc = j_parse(line);
			char *mbuf = NULL; size_t mlen = 0;
			out = open_memstream(&mbuf, &mlen);
			j_watchdog(30);
			live0 = af_live; fds0 = count_fds();
			run_scenario(sc);
			fclose(out);
			fwrite(mbuf, 1, mlen, stdout);
			fflush(stdout);
			free(mbuf);
			j_free_all();
		}
		free(line);
	}
	return 0;
}
