/* Driver for specs/TokenBucket.tla (C21): calls the compiled
 * ev_token_bucket_update_, ev_token_bucket_get_tick_ and ev_token_bucket_cfg_new
 * on vectors and prints what they did.  No oracle logic here.
 *
 * stdin : one batch per line {"k":"upd"|"tick"|"cfg","v":[[...decimal strings...],...]}
 *   upd  vector: [rl, wl, last, rr, rm, wr, wm, cur]
 *   tick vector: [sec, usec, mpt]
 *   cfg  vector: [rr, rb, wr, wb, hasTv(0/1), sec, usec]
 * stdout: one line per batch {"o":[[...decimal strings...],...]}
 *   upd  -> [rl, wl, last, ret]
 *   tick -> [tick]
 *   cfg  -> [ok, read_rate, read_maximum, write_rate, write_maximum, msec_per_tick, tick_sec, tick_usec]
 */
#include <event2/event.h>
#include <event2/util.h>
#include <event2/bufferevent.h>
#include <sys/time.h>
#include <stdint.h>
#include <inttypes.h>
#include "ratelim-internal.h"
#include "mjson.h"

static long long sv(jval *a, size_t i) { return strtoll(a->items[i]->str, NULL, 10); }
static unsigned long long uv(jval *a, size_t i) { return strtoull(a->items[i]->str, NULL, 10); }

int main(void)
{
	char *line;
	while ((line = j_readline(stdin))) {
		if (!line[0]) { free(line); continue; }
		jval *sc = j_parse(line);
		const char *k = j_str(sc, "k", "");
		jval *vs = j_get(sc, "v");
		char *obuf = NULL; size_t olen = 0;
		FILE *out = open_memstream(&obuf, &olen);
		fprintf(out, "{\"o\":[");
		for (size_t i = 0; vs && i < vs->n; i++) {
			jval *v = vs->items[i];
			if (i) fputc(',', out);
			if (!strcmp(k, "upd")) {
				struct ev_token_bucket b;
				struct ev_token_bucket_cfg c;
				memset(&b, 0, sizeof(b)); memset(&c, 0, sizeof(c));
				b.read_limit = (ev_ssize_t)sv(v, 0);
				b.write_limit = (ev_ssize_t)sv(v, 1);
				b.last_updated = (ev_uint32_t)uv(v, 2);
				c.read_rate = (size_t)uv(v, 3);
				c.read_maximum = (size_t)uv(v, 4);
				c.write_rate = (size_t)uv(v, 5);
				c.write_maximum = (size_t)uv(v, 6);
				c.msec_per_tick = 1000; c.tick_timeout.tv_sec = 1;
				int r = ev_token_bucket_update_(&b, &c, (ev_uint32_t)uv(v, 7));
				fprintf(out, "[\"%lld\",\"%lld\",\"%u\",\"%d\"]", (long long)b.read_limit,
				    (long long)b.write_limit, (unsigned)b.last_updated, r);
			} else if (!strcmp(k, "tick")) {
				struct ev_token_bucket_cfg c;
				struct timeval tv;
				memset(&c, 0, sizeof(c));
				tv.tv_sec = (time_t)sv(v, 0);
				tv.tv_usec = (suseconds_t)sv(v, 1);
				c.msec_per_tick = (unsigned)uv(v, 2);
				fprintf(out, "[\"%u\"]", (unsigned)ev_token_bucket_get_tick_(&tv, &c));
			} else if (!strcmp(k, "cfg")) {
				struct timeval tv;
				tv.tv_sec = (time_t)sv(v, 5);
				tv.tv_usec = (suseconds_t)sv(v, 6);
				struct ev_token_bucket_cfg *c = ev_token_bucket_cfg_new((size_t)uv(v, 0), (size_t)uv(v, 1),
				    (size_t)uv(v, 2), (size_t)uv(v, 3), sv(v, 4) ? &tv : NULL);
				if (!c)
					fprintf(out, "[\"0\"]");
				else {
					fprintf(out, "[\"1\",\"%llu\",\"%llu\",\"%llu\",\"%llu\",\"%u\",\"%lld\",\"%lld\"]",
					    (unsigned long long)c->read_rate, (unsigned long long)c->read_maximum,
					    (unsigned long long)c->write_rate, (unsigned long long)c->write_maximum,
					    c->msec_per_tick, (long long)c->tick_timeout.tv_sec, (long long)c->tick_timeout.tv_usec);
					ev_token_bucket_cfg_free(c);
				}
			} else {
				fprintf(out, "null");
			}
		}
		fprintf(out, "]}\n");
		fclose(out);
		fputs(obuf, stdout); fflush(stdout);
		free(obuf); free(line); j_free_all();
	}
	return 0;
}
