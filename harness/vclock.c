/* Virtual time for libevent drivers.  Linked with
 *   -Wl,--wrap=clock_gettime,--wrap=gettimeofday,--wrap=epoll_pwait2,
 *       --wrap=epoll_wait,--wrap=poll,--wrap=select
 * The monotonic clock and the wall clock are both derived from vt_now_ns, so
 * libevent's whole notion of time is owned by the driver.  The wait wrappers
 * call the real system call with a zero timeout (real kernel readiness is still
 * what the backend sees) and, when nothing is ready, advance the virtual clock
 * as the installed policy says.
 */
#define _GNU_SOURCE
#include <sys/epoll.h>
#include <sys/select.h>
#include <sys/time.h>
#include <poll.h>
#include <time.h>
#include <stdio.h>
#include <stdlib.h>
#include <alloca.h>
#include <string.h>
#include <stdint.h>
#include "vclock.h"

int64_t vt_now_ns = 1000LL * 1000000000LL;         /* monotonic; starts at 1000 s */
int64_t vt_wall_offset_ns = 1700000000LL * 1000000000LL; /* wall = mono + offset */
int vt_enabled = 1;
/* policy: given the timeout the backend asked for (ns, -1 = infinite) return
 * how many ns to advance the clock; return <0 to signal "would block forever". */
int64_t (*vt_wait_policy)(int64_t timeout_ns) = NULL;
/* observation hooks */
void (*vt_on_wait)(int64_t timeout_ns, int nready) = NULL;
/* called on entry of every wait; non-zero return suppresses the clock advance */
int (*vt_pre_wait)(int64_t timeout_ns) = NULL;
long vt_nwaits = 0;
int64_t vt_last_timeout_ns = -2;
int vt_would_block = 0;

int __real_clock_gettime(clockid_t, struct timespec *);
int __real_gettimeofday(struct timeval *, void *);
int __real_epoll_pwait2(int, struct epoll_event *, int, const struct timespec *, const sigset_t *);
int __real_epoll_wait(int, struct epoll_event *, int, int);
int __real_poll(struct pollfd *, nfds_t, int);
int __real_select(int, fd_set *, fd_set *, fd_set *, struct timeval *);

int __wrap_clock_gettime(clockid_t id, struct timespec *ts)
{
	if (!vt_enabled)
		return __real_clock_gettime(id, ts);
	if (id == CLOCK_REALTIME
#ifdef CLOCK_REALTIME_COARSE
	    || id == CLOCK_REALTIME_COARSE
#endif
	    ) {
		int64_t w = vt_now_ns + vt_wall_offset_ns;
		ts->tv_sec = w / 1000000000LL;
		ts->tv_nsec = w % 1000000000LL;
		return 0;
	}
	ts->tv_sec = vt_now_ns / 1000000000LL;
	ts->tv_nsec = vt_now_ns % 1000000000LL;
	return 0;
}

int __wrap_gettimeofday(struct timeval *tv, void *tz)
{
	if (!vt_enabled)
		return __real_gettimeofday(tv, tz);
	int64_t w = vt_now_ns + vt_wall_offset_ns;
	tv->tv_sec = w / 1000000000LL;
	tv->tv_usec = (w % 1000000000LL) / 1000;
	return 0;
}

/* returns 1 if the caller should re-poll after the advance */
static int vt_after_empty_wait(int64_t timeout_ns)
{
	int64_t adv;
	if (vt_wait_policy)
		adv = vt_wait_policy(timeout_ns);
	else
		adv = timeout_ns; /* exact; -1 (infinite) => would block */
	if (adv < 0) {
		vt_would_block = 1;
		return 0;
	}
	vt_now_ns += adv;
	return 1;
}

int __wrap_epoll_pwait2(int epfd, struct epoll_event *evs, int max,
    const struct timespec *to, const sigset_t *mask)
{
	static const struct timespec zero = {0, 0};
	int n, skip;
	int64_t tns;
	if (!vt_enabled)
		return __real_epoll_pwait2(epfd, evs, max, to, mask);
	tns = to ? (int64_t)to->tv_sec * 1000000000LL + to->tv_nsec : -1;
	vt_nwaits++;
	vt_last_timeout_ns = tns;
	skip = vt_pre_wait ? vt_pre_wait(tns) : 0;
	n = __real_epoll_pwait2(epfd, evs, max, &zero, mask);
	if (n == 0 && tns != 0 && !skip) {
		if (vt_after_empty_wait(tns))
			n = __real_epoll_pwait2(epfd, evs, max, &zero, mask);
	}
	if (vt_on_wait)
		vt_on_wait(tns, n);
	return n;
}

int __wrap_epoll_wait(int epfd, struct epoll_event *evs, int max, int to_ms)
{
	int n, skip;
	int64_t tns;
	if (!vt_enabled)
		return __real_epoll_wait(epfd, evs, max, to_ms);
	tns = to_ms < 0 ? -1 : (int64_t)to_ms * 1000000LL;
	vt_nwaits++;
	vt_last_timeout_ns = tns;
	skip = vt_pre_wait ? vt_pre_wait(tns) : 0;
	n = __real_epoll_wait(epfd, evs, max, 0);
	if (n == 0 && tns != 0 && !skip) {
		if (vt_after_empty_wait(tns))
			n = __real_epoll_wait(epfd, evs, max, 0);
	}
	if (vt_on_wait)
		vt_on_wait(tns, n);
	return n;
}

int __wrap_poll(struct pollfd *fds, nfds_t nfds, int to_ms)
{
	int n, skip;
	int64_t tns;
	if (!vt_enabled)
		return __real_poll(fds, nfds, to_ms);
	tns = to_ms < 0 ? -1 : (int64_t)to_ms * 1000000LL;
	vt_nwaits++;
	vt_last_timeout_ns = tns;
	skip = vt_pre_wait ? vt_pre_wait(tns) : 0;
	n = __real_poll(fds, nfds, 0);
	if (n == 0 && tns != 0 && !skip) {
		if (vt_after_empty_wait(tns))
			n = __real_poll(fds, nfds, 0);
	}
	if (vt_on_wait)
		vt_on_wait(tns, n);
	return n;
}

int __wrap_select(int nfds, fd_set *r, fd_set *w, fd_set *e, struct timeval *to)
{
	int n, skip;
	int64_t tns;
	/* libevent sizes its fd_sets by nfds, not FD_SETSIZE: copy only that many bytes */
	size_t nb = (size_t)((nfds + 63) / 64) * 8;
	char *r0 = alloca(nb ? nb : 8), *w0 = alloca(nb ? nb : 8), *e0 = alloca(nb ? nb : 8);
	struct timeval zero = {0, 0};
	if (!vt_enabled)
		return __real_select(nfds, r, w, e, to);
	tns = to ? (int64_t)to->tv_sec * 1000000000LL + (int64_t)to->tv_usec * 1000 : -1;
	vt_nwaits++;
	vt_last_timeout_ns = tns;
	skip = vt_pre_wait ? vt_pre_wait(tns) : 0;
	if (r) memcpy(r0, r, nb);
	if (w) memcpy(w0, w, nb);
	if (e) memcpy(e0, e, nb);
	n = __real_select(nfds, r, w, e, &zero);
	if (n == 0 && tns != 0 && !skip) {
		if (vt_after_empty_wait(tns)) {
			if (r) memcpy(r, r0, nb);
			if (w) memcpy(w, w0, nb);
			if (e) memcpy(e, e0, nb);
			zero.tv_sec = 0; zero.tv_usec = 0;
			n = __real_select(nfds, r, w, e, &zero);
		}
	}
	if (vt_on_wait)
		vt_on_wait(tns, n);
	return n;
}
