/* Driver for specs/Evbuffer.tla (binding G).
 * stdin: one scenario per line {"cfg":{...},"h":[op,...]}; every op is an op record
 * of the specification (sizes in bytes, data as symbol lists).  For every op the
 * driver performs the call on the real evbuffer code and prints the observation
 * in the shape of the specification's `o`.  No oracle logic here: symbols are
 * expanded to bytes (a -> wa x 'a', b -> wb x 'b', C L N -> CR LF NUL) and bytes
 * read back are run-length decoded to symbols ('?' = a run that is not a
 * multiple of the width, '#' = a foreign byte).
 * stdout: one line per scenario {"obs":[obs,...]}.
 */
#include <event2/event.h>
#include <event2/buffer.h>
#include <event2/buffer_compat.h>
#include <event2/util.h>
#include "evbuffer-internal.h"
#include "mm-internal.h"
#include <sys/uio.h>
#include <sys/mman.h>
#include <sys/socket.h>
#include <sys/sendfile.h>
#include <unistd.h>
#include <fcntl.h>
#include <errno.h>
#include <signal.h>
#include "mjson.h"
#include "vclock.h"
#include "lockrec.h"

#define NBUF 2
#define NCB 2
#define MAXPAT 8

static FILE *out;
static struct evbuffer *B[NBUF + 1];
static struct event_base *base;
static int wa, wb, cbmode;
static char *pats[MAXPAT]; static size_t patlen[MAXPAT]; static int npat;
static char inv_msg[512];
static int sock[2];
static int lockcb;      /* cfg "lockcb": bracket user callbacks in the lock trace (they run under the evbuffer's own lock by design) */
static struct evbuffer *new_buffer(void)
{
	struct evbuffer *b = evbuffer_new();
	if (b && lr_on) evbuffer_enable_locking(b, NULL);   /* $VERIF_LOCKTRACE: every evbuffer gets a (recording) lock */
	return b;
}

/* ------------------------------------------------------------ allocation faults (C14) */
static long alloc_count, alloc_fail_at;     /* fail the alloc_fail_at-th allocation (1-based); 0 = never */
static int alloc_armed, alloc_failed;
static long live_allocs;
static int alloc_should_fail(void)
{
	if (!alloc_armed) return 0;
	alloc_count++;
	if (alloc_fail_at && alloc_count == alloc_fail_at) { alloc_failed++; return 1; }
	return 0;
}
static void *f_malloc(size_t sz) { void *p; if (alloc_should_fail()) { errno = ENOMEM; return NULL; } p = malloc(sz); if (p) live_allocs++; return p; }
static void *f_realloc(void *p, size_t sz)
{
	void *q;
	if (alloc_should_fail()) { errno = ENOMEM; return NULL; }
	q = realloc(p, sz);
	if (!p && q) live_allocs++;
	return q;
}
static void f_free(void *p) { if (p) live_allocs--; free(p); }

/* ------------------------------------------------------------ scripted system calls (C16)
 * io_script[] holds the results the next read/readv/write/writev/sendfile calls made by
 * the library shall produce: k >= 0: transfer at most k bytes (really performed on the fd,
 * so the data moved is genuine), k < 0: fail with errno -k without touching the fd.
 * With an empty script the calls pass through.  Every intercepted call is logged. */
ssize_t __real_read(int, void *, size_t);
ssize_t __real_write(int, const void *, size_t);
ssize_t __real_readv(int, const struct iovec *, int);
ssize_t __real_writev(int, const struct iovec *, int);
ssize_t __real_sendfile(int, int, off_t *, size_t);
static long io_script[32]; static int io_n, io_pos, io_active;
static char iolog[4096]; static size_t iologlen;
static void io_note(const char *fn, long asked, long res)
{
	iologlen += snprintf(iolog + iologlen, sizeof(iolog) - iologlen, "%s{\"f\":\"%s\",\"n\":%ld,\"r\":%ld}", iologlen ? "," : "", fn, asked, res);
}
static int io_next(long *k) { if (!io_active || io_pos >= io_n) return 0; *k = io_script[io_pos++]; return 1; }
static size_t iov_total(const struct iovec *v, int n) { size_t t = 0; for (int i = 0; i < n; i++) t += v[i].iov_len; return t; }
ssize_t __wrap_read(int fd, void *p, size_t n)
{
	long k; ssize_t r;
	if (!io_active) return __real_read(fd, p, n);
	if (io_next(&k)) { if (k < 0) { errno = (int)-k; r = -1; } else r = __real_read(fd, p, (size_t)k < n ? (size_t)k : n); }
	else r = __real_read(fd, p, n);
	io_note("read", (long)n, (long)r);
	return r;
}
ssize_t __wrap_write(int fd, const void *p, size_t n)
{
	long k; ssize_t r;
	if (!io_active) return __real_write(fd, p, n);
	if (io_next(&k)) { if (k < 0) { errno = (int)-k; r = -1; } else r = __real_write(fd, p, (size_t)k < n ? (size_t)k : n); }
	else r = __real_write(fd, p, n);
	io_note("write", (long)n, (long)r);
	return r;
}
static ssize_t iov_limited(int fd, const struct iovec *v, int n, size_t k, int wr)
{
	struct iovec c[140]; int i, m = 0; size_t left = k;
	for (i = 0; i < n && i < 140 && left; i++) { c[m] = v[i]; if (c[m].iov_len > left) c[m].iov_len = left; left -= c[m].iov_len; m++; }
	if (!m) return 0;
	return wr ? __real_writev(fd, c, m) : __real_readv(fd, c, m);
}
ssize_t __wrap_readv(int fd, const struct iovec *v, int n)
{
	long k; ssize_t r;
	if (!io_active) return __real_readv(fd, v, n);
	if (io_next(&k)) { if (k < 0) { errno = (int)-k; r = -1; } else r = iov_limited(fd, v, n, (size_t)k, 0); }
	else r = __real_readv(fd, v, n);
	io_note("readv", (long)iov_total(v, n), (long)r);
	return r;
}
ssize_t __wrap_writev(int fd, const struct iovec *v, int n)
{
	long k; ssize_t r;
	if (!io_active) return __real_writev(fd, v, n);
	if (io_next(&k)) { if (k < 0) { errno = (int)-k; r = -1; } else r = iov_limited(fd, v, n, (size_t)k, 1); }
	else r = __real_writev(fd, v, n);
	io_note("writev", (long)iov_total(v, n), (long)r);
	return r;
}
ssize_t __wrap_sendfile(int ofd, int ifd, off_t *off, size_t n)
{
	long k; ssize_t r;
	if (!io_active) return __real_sendfile(ofd, ifd, off, n);
	if (io_next(&k)) { if (k < 0) { errno = (int)-k; r = -1; } else r = __real_sendfile(ofd, ifd, off, (size_t)k < n ? (size_t)k : n); }
	else r = __real_sendfile(ofd, ifd, off, n);
	io_note("sendfile", (long)n, (long)r);
	return r;
}

/* ------------------------------------------------------------ symbols <-> bytes */
static size_t sym_width(char c) { return c == 'a' ? (size_t)wa : c == 'b' ? (size_t)wb : 1; }
static char sym_byte(char c) { return c == 'C' ? '\r' : c == 'L' ? '\n' : c == 'N' ? '\0' : c; }
/* expand a JSON list of 1-char strings; returns malloc'd bytes */
static char *expand(jval *d, size_t *lenp)
{
	size_t n = 0, k, i;
	char *m, *p;
	for (k = 0; d && k < d->n; k++) n += sym_width(d->items[k]->str[0]);
	p = m = malloc(n + 1);
	for (k = 0; d && k < d->n; k++) {
		char c = d->items[k]->str[0];
		for (i = 0; i < sym_width(c); i++) *p++ = sym_byte(c);
	}
	*p = 0;
	*lenp = n;
	return m;
}
/* decode bytes into symbols; optionally record the byte offset of every symbol boundary */
static char *decode(const unsigned char *m, size_t n, size_t **bounds, size_t *nsym)
{
	size_t cap = n + 2, k = 0, i = 0;
	char *s = malloc(cap);
	size_t *bd = bounds ? malloc((n + 2) * sizeof(size_t)) : NULL;
	while (i < n) {
		unsigned char c = m[i];
		if (bd) bd[k] = i;
		if (c == 'a' || c == 'b') {
			size_t w = sym_width((char)c), run = 0;
			while (i + run < n && m[i + run] == c && run < w) run++;
			s[k++] = run == w ? (char)c : '?';
			i += run;
		} else {
			s[k++] = c == '\r' ? 'C' : c == '\n' ? 'L' : c == 0 ? 'N' : '#';
			i++;
		}
	}
	if (bd) bd[k] = n;
	s[k] = 0;
	if (bounds) *bounds = bd;
	if (nsym) *nsym = k;
	return s;
}
static void put_decoded(const void *m, size_t n)
{
	char *s = decode(m, n, NULL, NULL);
	fprintf(out, "\"%s\"", s);
	free(s);
}

/* ------------------------------------------------------------ referenced memory (C15) */
struct region { unsigned char *mem; size_t len; unsigned long sum; int cleanups; int live; int id; };
static struct region regions[256];
static int nregions, ref_bad;
static unsigned long cksum(const unsigned char *m, size_t n) { unsigned long h = 5381; while (n--) h = h * 33 + *m++; return h; }
static void ref_cleanup(const void *data, size_t datalen, void *extra)
{
	struct region *r = extra;
	if (lockcb) lockrec_cb_enter();
	r->cleanups++;
	if (data != r->mem || datalen != r->len) ref_bad++;
	if (cksum(r->mem, r->len) != r->sum) ref_bad++;
	/* the memory stays allocated until teardown, but is overwritten: a cleanup that comes while bytes of the
	 * region are still in some buffer shows up as wrong content */
	memset(r->mem, 'Z', r->len);
	r->live = 0;
	if (lockcb) lockrec_cb_exit();
}
static void check_regions(void)
{
	for (int i = 0; i < nregions; i++)
		if (!regions[i].cleanups && cksum(regions[i].mem, regions[i].len) != regions[i].sum) ref_bad++;
}
/* file segments */
struct segrec { int cleanups; int id; int fd; };
static struct segrec segs[256];
static int nsegs;
static void seg_cleanup(struct evbuffer_file_segment const *seg, int flags, void *arg)
{
	struct segrec *s = arg;
	if (lockcb) lockrec_cb_enter();
	s->cleanups++;
	if (lockcb) lockrec_cb_exit();
}

/* ------------------------------------------------------------ chain validator */
static void inv_fail(const char *fmt, long a, long b)
{
	if (!inv_msg[0]) snprintf(inv_msg, sizeof inv_msg, fmt, a, b);
}
static char *chain_content(struct evbuffer *buf, size_t *lenp)
{
	struct evbuffer_chain *c, *lastc = NULL, **pp;
	size_t total = 0, n = 0;
	char *m, *p;
	int seen_lwd = 0, after = 0;
	for (c = buf->first; c; c = c->next) {
		if (c->refcnt <= 0) inv_fail("chain refcnt %ld", c->refcnt, 0);
		if (!(c->flags & EVBUFFER_SENDFILE) && (size_t)c->misalign + c->off > c->buffer_len)
			inv_fail("misalign+off %ld > buffer_len %ld", (long)(c->misalign + c->off), (long)c->buffer_len);
		if (c->misalign < 0) inv_fail("negative misalign %ld", (long)c->misalign, 0);
		total += c->off;
		lastc = c;
		if (++n > 100000) { inv_fail("chain list cycle", 0, 0); break; }
	}
	if (total != buf->total_len) inv_fail("total_len %ld != sum of off %ld", (long)buf->total_len, (long)total);
	if (buf->last != lastc) inv_fail("buf->last is not the last chain", 0, 0);
	if (!buf->first) {
		if (buf->last_with_datap != &buf->first) inv_fail("empty list: last_with_datap != &first", 0, 0);
	} else {
		/* last_with_datap must point at a next-pointer inside the list */
		for (pp = &buf->first; *pp; pp = &(*pp)->next) {
			if (pp == buf->last_with_datap) seen_lwd = 1;
			else if (seen_lwd && !after) after = 1;
			if (after && (*pp)->off) inv_fail("chain with data after *last_with_datap", 0, 0);
		}
		if (!seen_lwd) inv_fail("last_with_datap does not point into the chain list", 0, 0);
		else if (total && (*buf->last_with_datap)->off == 0) inv_fail("*last_with_datap is empty but buffer has data", 0, 0);
		else if (!total && buf->last_with_datap != &buf->first) inv_fail("no data but last_with_datap != &first", 0, 0);
	}
	if (buf->refcnt <= 0) inv_fail("buffer refcnt %ld", buf->refcnt, 0);
	p = m = malloc(total + 1);
	for (c = buf->first, n = 0; c && n <= 100000; c = c->next, n++) {
		if (c->flags & EVBUFFER_SENDFILE) { memset(p, '#', c->off); }
		else memcpy(p, c->buffer + c->misalign, c->off);
		p += c->off;
	}
	*lenp = total;
	return m;
}

/* ------------------------------------------------------------ evbuffer callbacks (C13) */
static struct evbuffer_cb_entry *cbent[NBUF + 1][NCB + 1];
static int cbscript[NBUF + 1][NCB + 1], cbleft[NBUF + 1][NCB + 1];   /* 1 drainall, 2 adda; invocations left */
static char cblog[1 << 16]; static size_t cblen; static int cbfirst;
static void evb_cb(struct evbuffer *buf, const struct evbuffer_cb_info *info, void *arg)
{
	int code = (int)(intptr_t)arg;
	if (lockcb) lockrec_cb_enter();
	cblen += snprintf(cblog + cblen, sizeof(cblog) - cblen,
	    "%s{\"b\":%d,\"cb\":%d,\"o\":%zu,\"a\":%zu,\"d\":%zu,\"l\":%zu}", cbfirst ? "" : ",",
	    code / 10, code % 10, info->orig_size, info->n_added, info->n_deleted, evbuffer_get_length(buf));
	cbfirst = 0;
	/* the callback's script: modify the buffer it is registered on, from inside the callback */
	if (cbscript[code / 10][code % 10] && cbleft[code / 10][code % 10] > 0) {
		cbleft[code / 10][code % 10]--;
		if (cbscript[code / 10][code % 10] == 1) evbuffer_drain(buf, (size_t)1 << 40);
		else { char *m = malloc((size_t)wa); memset(m, 'a', (size_t)wa); evbuffer_add(buf, m, (size_t)wa); free(m); }
	}
	if (lockcb) lockrec_cb_exit();
}

/* ------------------------------------------------------------ the query battery */
static void battery(int b)
{
	struct evbuffer *buf = B[b];
	size_t len, n = evbuffer_get_length(buf), nsym, *bd, i;
	char *raw = chain_content(buf, &len), *syms = decode((unsigned char *)raw, len, &bd, &nsym);
	char *tmp = malloc(n + 16);
	struct evbuffer_ptr p, e;
	ev_ssize_t r;
	int k, y;

	fprintf(out, "{\"n\":%zu,\"c\":\"%s\"", n, syms);
	r = evbuffer_copyout(buf, tmp, n);
	fprintf(out, ",\"co\":"); if (r < 0) fprintf(out, "\"!\""); else put_decoded(tmp, (size_t)r);
	/* sf: ptr_set(SET) + copyout_from */
	fprintf(out, ",\"sf\":[");
	for (i = 0; i <= nsym; i++) {
		if (i) fputc(',', out);
		if (evbuffer_ptr_set(buf, &p, bd[i], EVBUFFER_PTR_SET) < 0 || p.pos != (ev_ssize_t)bd[i]) { fprintf(out, "\"E\""); continue; }
		r = evbuffer_copyout_from(buf, &p, tmp, n + 8);
		if (r < 0) fprintf(out, "\"!\""); else put_decoded(tmp, (size_t)r);
	}
	/* pk: ptr_set(SET) + peek(-1) */
	fprintf(out, "],\"pk\":[");
	for (i = 0; i <= nsym; i++) {
		struct evbuffer_iovec *v;
		int nv, nv2, j;
		size_t got = 0;
		if (i) fputc(',', out);
		if (evbuffer_ptr_set(buf, &p, bd[i], EVBUFFER_PTR_SET) < 0) { fprintf(out, "\"E\""); continue; }
		nv = evbuffer_peek(buf, -1, i ? &p : NULL, NULL, 0);
		v = calloc(nv + 1, sizeof *v);
		nv2 = evbuffer_peek(buf, -1, i ? &p : NULL, v, nv);
		if (nv2 != nv) { fprintf(out, "\"E%d/%d\"", nv, nv2); free(v); continue; }
		for (j = 0; j < nv; j++) {
			if (got + v[j].iov_len > n) { got = n + 1; break; }
			memcpy(tmp + got, v[j].iov_base, v[j].iov_len); got += v[j].iov_len;
		}
		if (got > n) fprintf(out, "\"E\""); else put_decoded(tmp, got);
		free(v);
	}
	/* pa: ptr_set(SET) then ADD to the next boundary (1 past the end for the last) */
	fprintf(out, "],\"pa\":[");
	for (i = 0; i <= nsym; i++) {
		if (i) fputc(',', out);
		if (evbuffer_ptr_set(buf, &p, bd[i], EVBUFFER_PTR_SET) < 0) { fprintf(out, "-555"); continue; }
		if (evbuffer_ptr_set(buf, &p, i < nsym ? bd[i + 1] - bd[i] : 1, EVBUFFER_PTR_ADD) < 0) fprintf(out, "%d", p.pos == -1 ? -1 : -556);
		else {
			/* the advanced pointer must be usable */
			r = evbuffer_copyout_from(buf, &p, tmp, 1);
			fprintf(out, "%ld", (r < 0 && !buf->freeze_start) ? -557L : (long)p.pos);
		}
	}
	fprintf(out, "],\"se\":[");
	for (k = 0; k < npat; k++) {
		fprintf(out, "%s[", k ? "," : "");
		for (i = 0; i <= nsym; i++) {
			struct evbuffer_ptr f;
			evbuffer_ptr_set(buf, &p, bd[i], EVBUFFER_PTR_SET);
			f = evbuffer_search(buf, pats[k], patlen[k], &p);
			if (i == 0) { struct evbuffer_ptr g = evbuffer_search(buf, pats[k], patlen[k], NULL); if (g.pos != f.pos) f.pos = -555; }
			fprintf(out, "%s%ld", i ? "," : "", (long)f.pos);
		}
		fputc(']', out);
	}
	fprintf(out, "],\"sr\":[");
	if (nsym > 0) for (k = 0; k < npat; k++) {
		fprintf(out, "%s[", k ? "," : "");
		evbuffer_ptr_set(buf, &e, bd[nsym - 1], EVBUFFER_PTR_SET);
		for (i = 0; i <= nsym; i++) {
			struct evbuffer_ptr f;
			evbuffer_ptr_set(buf, &p, bd[i], EVBUFFER_PTR_SET);
			f = evbuffer_search_range(buf, pats[k], patlen[k], &p, &e);
			fprintf(out, "%s%ld", i ? "," : "", (long)f.pos);
		}
		fputc(']', out);
	}
	fprintf(out, "],\"el\":[");
	for (y = 0; y < 5; y++) {
		fprintf(out, "%s[", y ? "," : "");
		for (i = 0; i <= nsym; i++) {
			struct evbuffer_ptr f;
			size_t el = 777;
			evbuffer_ptr_set(buf, &p, bd[i], EVBUFFER_PTR_SET);
			f = evbuffer_search_eol(buf, &p, &el, (enum evbuffer_eol_style)y);
			if (i == 0) { size_t el2 = 777; struct evbuffer_ptr g = evbuffer_search_eol(buf, NULL, &el2, (enum evbuffer_eol_style)y); if (g.pos != f.pos || el2 != el) f.pos = -555; }
			fprintf(out, "%s[%ld,%zu]", i ? "," : "", (long)f.pos, el);
		}
		fputc(']', out);
	}
	fprintf(out, "],\"fr\":[%d,%d]}", buf->freeze_start, buf->freeze_end);
	free(raw); free(syms); free(bd); free(tmp);
}

/* ------------------------------------------------------------ operations */
static void print_obs_tail(void)
{
	int b;
	fprintf(out, ",\"q\":[");
	lockrec_api_enter("observe");
	for (b = 1; b <= NBUF; b++) { if (b > 1) fputc(',', out); battery(b); }
	lockrec_api_return("observe");
	fprintf(out, "]");
	if (cbmode) fprintf(out, ",\"cb\":[%s]", cblog);
	check_regions();
	{
		int i, rl = 0, rc = 0, sc = 0, bad = ref_bad;
		for (i = 0; i < nregions; i++) { rl += regions[i].live; rc += regions[i].cleanups; if (regions[i].cleanups > 1) bad++; }
		for (i = 0; i < nsegs; i++) { sc += segs[i].cleanups; if (segs[i].cleanups > 1) bad++; }
		fprintf(out, ",\"rl\":%d,\"rc\":%d,\"sc\":%d,\"bad\":%d", rl, rc, sc, bad);
	}
	fprintf(out, ",\"af\":%d,\"inv\":", alloc_failed);
	j_put_str(out, inv_msg, strlen(inv_msg));
	fprintf(out, "}");
}

static void exec_op(jval *op)
{
	const char *a = j_str(op, "a", "");
	int b = (int)j_int(op, "b", 1), s = (int)j_int(op, "s", 1);
	long long nb = j_int(op, "nb", 0);
	size_t dl = 0;
	char *d = expand(j_get(op, "d"), &dl);
	long r = -98;

	cblen = 0; cbfirst = 1; cblog[0] = 0; inv_msg[0] = 0;
	fprintf(out, "{");
	alloc_armed = 1;
	lockrec_api_enter(a);
	if (!strcmp(a, "add")) r = evbuffer_add(B[b], d, dl);
	else if (!strcmp(a, "prepend")) r = evbuffer_prepend(B[b], d, dl);
	else if (!strcmp(a, "printf")) r = evbuffer_add_printf(B[b], "%s", d);
	else if (!strcmp(a, "addref")) {
		struct region *rg = &regions[nregions];
		alloc_armed = 0;
		rg->mem = malloc(dl + 1); memcpy(rg->mem, d, dl); rg->len = dl; rg->sum = cksum(rg->mem, dl); rg->cleanups = 0; rg->live = 1; rg->id = nregions;
		nregions++;
		alloc_armed = 1;
		r = evbuffer_add_reference(B[b], rg->mem, dl, ref_cleanup, rg);
		if (r < 0) rg->live = 0; /* never owned by the buffer */
	} else if (!strcmp(a, "addiov")) {
		size_t d2l; char *d2 = expand(j_get(op, "d2"), &d2l);
		struct evbuffer_iovec v[2] = {{d, dl}, {d2, d2l}};
		r = (long)evbuffer_add_iovec(B[b], v, 2);
		free(d2);
	} else if (!strcmp(a, "rescommit")) {
		struct evbuffer_iovec v[8];
		int nv = (int)j_int(op, "nv", 1), n, i, used = 0;
		size_t left = dl; const char *p = d;
		memset(v, 0, sizeof v);
		n = evbuffer_reserve_space(B[b], nb, v, nv);
		fprintf(out, "\"rn\":%d,", n);
		if (n < 0) r = -1;
		else {
			size_t space = 0;
			for (i = 0; i < n; i++) space += v[i].iov_len;
			if (space < (size_t)nb) { r = -97; }
			else {
				for (i = 0; i < n && left; i++) {
					size_t k = left < v[i].iov_len ? left : v[i].iov_len;
					memcpy(v[i].iov_base, p, k); v[i].iov_len = k; p += k; left -= k; used = i + 1;
				}
				if (!used && n > 0) { used = 1; v[0].iov_len = 0; }
				r = evbuffer_commit_space(B[b], v, used);
			}
		}
	} else if (!strcmp(a, "addbuf")) r = evbuffer_add_buffer(B[b], B[s]);
	else if (!strcmp(a, "prependbuf")) r = evbuffer_prepend_buffer(B[b], B[s]);
	else if (!strcmp(a, "rmbuf")) r = evbuffer_remove_buffer(B[b], B[s], (size_t)nb);
	else if (!strcmp(a, "addbufref")) r = evbuffer_add_buffer_reference(B[b], B[s]);
	else if (!strcmp(a, "addfile")) {
		char path[] = "/verif/out/tmp/evbfileXXXXXX";
		int fd, m = (int)j_int(op, "m", 0);
		struct evbuffer_file_segment *seg;
		struct segrec *sr = &segs[nsegs];
		alloc_armed = 0;
		fd = mkstemp(path);
		if (fd < 0) { perror("mkstemp"); exit(3); }
		unlink(path);
		if (write(fd, d, dl) != (ssize_t)dl) { perror("write"); exit(3); }
		alloc_armed = 1;
		seg = evbuffer_file_segment_new(fd, 0, -1, EVBUF_FS_CLOSE_ON_FREE | EVBUF_FS_DISABLE_SENDFILE | (m == 1 ? EVBUF_FS_DISABLE_MMAP : 0));
		if (!seg) { r = -1; close(fd); }
		else {
			sr->cleanups = 0; sr->id = nsegs; sr->fd = fd; nsegs++;
			evbuffer_file_segment_add_cleanup_cb(seg, seg_cleanup, sr);
			r = evbuffer_add_file_segment(B[b], seg, (ev_off_t)j_int(op, "ob", 0), (ev_off_t)j_int(op, "lb", -1));
			/* on failure the library has already dropped the caller's reference (as evbuffer_add_file relies on) */
			if (r == 0) evbuffer_file_segment_free(seg);
		}
	} else if (!strcmp(a, "addfilebad")) {
		/* a lazily materialised segment (sendfile-capable, so nothing is read at creation) added to a plain evbuffer:
		 * materialisation happens inside evbuffer_add_file_segment and FAILS: m 0 fd closed, 1 fd write-only,
		 * 2 file truncated (mmap disabled), 3 fd closed (mmap disabled) */
		char path[] = "/verif/out/tmp/evbbadXXXXXX";
		int fd, m = (int)j_int(op, "m", 0);
		struct evbuffer_file_segment *seg;
		struct segrec *sr = &segs[nsegs];
		alloc_armed = 0;
		fd = mkstemp(path);
		if (fd < 0) { perror("mkstemp"); exit(3); }
		if (write(fd, d, dl) != (ssize_t)dl) { perror("write"); exit(3); }
		if (m == 1) { close(fd); fd = open(path, O_WRONLY); }
		unlink(path);
		alloc_armed = 1;
		seg = evbuffer_file_segment_new(fd, 0, (ev_off_t)dl, (m == 1 || m == 2 ? EVBUF_FS_CLOSE_ON_FREE : 0) | (m >= 2 ? EVBUF_FS_DISABLE_MMAP : 0));
		if (!seg) { r = -1; close(fd); }
		else {
			sr->cleanups = 0; sr->id = nsegs; sr->fd = fd; nsegs++;
			evbuffer_file_segment_add_cleanup_cb(seg, seg_cleanup, sr);
			if (m == 0 || m == 3) close(fd);
			if (m == 2 && ftruncate(fd, 0) < 0) { perror("ftruncate"); exit(3); }
			r = evbuffer_add_file_segment(B[b], seg, 0, -1);
			if (r == 0) evbuffer_file_segment_free(seg);
		}
	} else if (!strcmp(a, "evread") || !strcmp(a, "evwrite") || !strcmp(a, "sfwrite")) {
		long long hm = j_int(op, "hm", -1), kb = j_int(op, "kb", -1), e = j_int(op, "e", 0);
		struct evbuffer *wb_ = B[b];
		int sfd = -1;
		alloc_armed = 0;
		io_n = io_pos = 0; iologlen = 0; iolog[0] = 0;
		if (e) io_script[io_n++] = -e; else if (kb >= 0) io_script[io_n++] = kb;
		if (a[0] == 's') {       /* fresh buffer draining to an fd, one sendfile-capable segment */
			char path[] = "/verif/out/tmp/evbsfXXXXXX";
			struct evbuffer_file_segment *seg;
			sfd = mkstemp(path);
			if (sfd < 0) { perror("mkstemp"); exit(3); }
			unlink(path);
			if (write(sfd, d, dl) != (ssize_t)dl) { perror("write"); exit(3); }
			wb_ = new_buffer();
			evbuffer_set_flags(wb_, EVBUFFER_FLAG_DRAINS_TO_FD);
			seg = evbuffer_file_segment_new(sfd, 0, -1, EVBUF_FS_CLOSE_ON_FREE);
			if (!seg || evbuffer_add_file_segment(wb_, seg, (ev_off_t)j_int(op, "ob", 0), -1) < 0) { fprintf(stderr, "sfwrite setup failed\n"); exit(3); }
			evbuffer_file_segment_free(seg);
			fprintf(out, "\"sf\":%d,", wb_->first && (wb_->first->flags & EVBUFFER_SENDFILE) ? 1 : 0);
		} else if (a[2] == 'r' && dl) {
			if (write(sock[1], d, dl) != (ssize_t)dl) { perror("feed"); exit(3); }
		}
		alloc_armed = 1;
		io_active = 1;
		if (a[2] == 'r') r = evbuffer_read(B[b], sock[0], (int)hm);
		else r = hm < 0 ? evbuffer_write(wb_, sock[0]) : evbuffer_write_atmost(wb_, sock[0], (ev_ssize_t)hm);
		io_active = 0;
		alloc_armed = 0;
		if (a[2] != 'r') {   /* what arrived on the wire */
			static char wire[1 << 17];
			size_t got = 0; ssize_t x;
			while ((x = __real_read(sock[1], wire + got, sizeof(wire) - got)) > 0) got += (size_t)x;
			fprintf(out, "\"w\":"); put_decoded(wire, got); fputc(',', out);
		}
		if (a[0] == 's') { fprintf(out, "\"rest\":%zu,", evbuffer_get_length(wb_)); evbuffer_free(wb_); }
		fprintf(out, "\"io\":[%s],", iolog);
	} else if (!strcmp(a, "drain")) r = evbuffer_drain(B[b], (size_t)nb);
	else if (!strcmp(a, "remove") || !strcmp(a, "copyout")) {
		char *m = malloc((size_t)nb + 1);
		memset(m, '#', (size_t)nb);
		r = a[0] == 'r' ? evbuffer_remove(B[b], m, (size_t)nb) : (long)evbuffer_copyout(B[b], m, (size_t)nb);
		fprintf(out, "\"d\":"); put_decoded(m, r > 0 ? (size_t)r : 0); fputc(',', out);
		free(m);
	} else if (!strcmp(a, "pullup")) {
		unsigned char *p = evbuffer_pullup(B[b], (ev_ssize_t)nb);
		size_t want = nb < 0 ? evbuffer_get_length(B[b]) : (size_t)nb;
		r = p != NULL;
		fprintf(out, "\"d\":"); put_decoded(p, p ? want : 0); fputc(',', out);
	} else if (!strcmp(a, "expand")) r = evbuffer_expand(B[b], (size_t)nb);
	else if (!strcmp(a, "readln")) {
		size_t nr = 777;
		char *line = evbuffer_readln(B[b], &nr, (enum evbuffer_eol_style)j_int(op, "y", 0));
		r = line != NULL;
		fprintf(out, "\"d\":"); put_decoded(line, line ? nr : 0);
		if (line && line[nr] != 0) nr = 778; /* must be NUL-terminated */
		fprintf(out, ",\"nr\":%zu,", nr);
		alloc_armed = 0;
		if (line) mm_free(line);
	} else if (!strcmp(a, "freeze")) r = evbuffer_freeze(B[b], (int)j_int(op, "w", 0));
	else if (!strcmp(a, "unfreeze")) r = evbuffer_unfreeze(B[b], (int)j_int(op, "w", 0));
	else if (!strcmp(a, "cbadd")) {
		int k = (int)j_int(op, "k", 1);
		cbent[b][k] = evbuffer_add_cb(B[b], evb_cb, (void *)(intptr_t)(b * 10 + k));
		cbscript[b][k] = cbleft[b][k] = 0;
		r = cbent[b][k] ? 0 : -1;
	} else if (!strcmp(a, "cbscript")) {
		int k = (int)j_int(op, "k", 1);
		cbscript[b][k] = !strcmp(j_str(op, "sc", ""), "drainall") ? 1 : 2; cbleft[b][k] = 1;
		r = 0;
	} else if (!strcmp(a, "cbdel")) {
		int k = (int)j_int(op, "k", 1);
		if (!cbent[b][k]) r = -96; else { r = evbuffer_remove_cb_entry(B[b], cbent[b][k]); cbent[b][k] = NULL; }
	} else if (!strcmp(a, "cbflag")) {
		int k = (int)j_int(op, "k", 1), f = (int)j_int(op, "f", 1);
		if (!cbent[b][k]) r = -96; else
		r = j_int(op, "v", 1) ? evbuffer_cb_set_flags(B[b], cbent[b][k], f) : evbuffer_cb_clear_flags(B[b], cbent[b][k], f);
	} else if (!strcmp(a, "loop")) {
		r = event_base_loop(base, EVLOOP_NONBLOCK);
		if (r == 1) r = 0; /* "no events registered" is not an error here */
	} else fprintf(stderr, "unknown op %s\n", a);
	lockrec_api_return(a);
	alloc_armed = 0;
	fprintf(out, "\"r\":%ld", r);
	print_obs_tail();
	free(d);
}

static void quiet_log(int sev, const char *msg) { (void)sev; (void)msg; }

static void run_scenario(jval *sc)
{
	jval *cfg = j_get(sc, "cfg"), *h = j_get(sc, "h"), *pl = j_get(cfg, "pats");
	size_t k;
	int b, i;
	long live0 = live_allocs;

	wa = (int)j_int(cfg, "wa", 1); wb = (int)j_int(cfg, "wb", 1);
	cbmode = (int)j_int(cfg, "cbmode", 0);
	lockcb = (int)j_int(cfg, "lockcb", 0);
	lockrec_reset(j_str(cfg, "sid", "0"));
	alloc_fail_at = j_int(cfg, "failn", 0); alloc_count = 0; alloc_failed = 0; alloc_armed = 0;
	npat = 0;
	for (k = 0; pl && k < pl->n && npat < MAXPAT; k++) pats[npat] = expand(pl->items[k], &patlen[npat]), npat++;
	nregions = nsegs = ref_bad = 0;
	memset(cbent, 0, sizeof cbent); memset(cbscript, 0, sizeof cbscript); memset(cbleft, 0, sizeof cbleft);
	base = NULL;
	if (socketpair(AF_UNIX, SOCK_STREAM, 0, sock) < 0) { perror("socketpair"); exit(3); }
	evutil_make_socket_nonblocking(sock[0]); evutil_make_socket_nonblocking(sock[1]);
	if (cbmode == 2) { vt_now_ns = 1000LL * 1000000000LL; base = event_base_new(); }
	for (b = 1; b <= NBUF; b++) {
		B[b] = new_buffer();
		if (cbmode == 2) evbuffer_defer_callbacks(B[b], base);
	}
	fprintf(out, "{\"obs\":[");
	for (k = 0; h && k < h->n; k++) {
		int af0 = alloc_failed;
		if (k) fputc(',', out);
		exec_op(h->items[k]);
		/* C14: optionally stop right after the call in which the allocation failure happened */
		if (alloc_failed != af0 && j_int(cfg, "stopfault", 0)) break;
	}
	fprintf(out, "],\"allocs\":%ld", alloc_count);
	/* teardown: free the buffers; every reference must be cleaned exactly once by now */
	lockrec_api_enter("teardown");
	for (b = 1; b <= NBUF; b++) evbuffer_free(B[b]);
	if (base) { event_base_loop(base, EVLOOP_NONBLOCK); event_base_free(base); base = NULL; }
	lockrec_api_return("teardown");
	{
		int bad = ref_bad, notclean = 0;
		check_regions();
		for (i = 0; i < nregions; i++) { if (regions[i].cleanups != (regions[i].live || regions[i].cleanups ? 1 : 0)) bad++; if (regions[i].live) notclean++; }
		for (i = 0; i < nsegs; i++) if (segs[i].cleanups != 1) bad++;
		fprintf(out, ",\"end\":{\"bad\":%d,\"notclean\":%d,\"leak\":%ld}}\n", bad + ref_bad, notclean, live_allocs - live0);
		for (i = 0; i < nregions; i++) free(regions[i].mem);
	}
	for (i = 0; i < npat; i++) free(pats[i]);
	close(sock[0]); close(sock[1]);
}

int main(int argc, char **argv)
{
	char *line;
	out = stdout;
	lockrec_install();      /* no-op unless $VERIF_LOCKTRACE is set */
	event_set_mem_functions(f_malloc, f_realloc, f_free);
	event_set_log_callback(quiet_log);
	signal(SIGPIPE, SIG_IGN);
	while ((line = j_readline(stdin))) {
		if (line[0]) {
			jval *sc = j_parse(line);
			char *mbuf = NULL; size_t mlen = 0;
			out = open_memstream(&mbuf, &mlen);
			run_scenario(sc);
			fclose(out);
			fwrite(mbuf, 1, mlen, stdout);
			fflush(stdout);
			free(mbuf);
			j_free_all();
		}
		free(line);
	}
	return 0;
}
