/* Driver for specs/WeakRand.tla (C46): calls the compiled evutil_weakrand_,
 * evutil_weakrand_range_ and the poll/select dispatch on vectors and prints
 * what they did.  No oracle logic here.
 *
 * stdin : one batch per line {"k":"step"|"range"|"disp","v":[[...],...]}
 *   step  vector: [seed]                -> [ret, seed_after]
 *   range vector: [seed, top]           -> [ret, seed_after, k]   k = number of generator steps consumed,
 *            measured by stepping the real evutil_weakrand_ from the same seed until it reaches
 *            seed_after (0 if not reached within 64 steps)
 *   disp  vector: [backend(0 poll,1 select), seed, nready] -> [n, seed_after, k, idx-in-callback-order...]
 *            n = size of the range the backend chooses from (poll: number of pollfds, select: maxfd+1),
 *            idx = index in the backend's examination space of each ready fd, in the order its callback
 *            ran (poll: position in the pollfd array, select: the fd number)
 */
#include <event2/event.h>
#include <event2/util.h>
#include <unistd.h>
#include <fcntl.h>
#include "util-internal.h"
#include "event-internal.h"
#include "mjson.h"

static long long sv(jval *a, size_t i) { return strtoll(a->items[i]->str, NULL, 10); }

static int steps_between(ev_uint32_t from, ev_uint32_t to)
{
	struct evutil_weakrand_state s; s.seed = from;
	for (int k = 1; k <= 64; k++) {
		evutil_weakrand_(&s);
		if (s.seed == to) return k;
	}
	return 0;
}

static int order[64], norder;
static void cb(evutil_socket_t fd, short what, void *arg) { (void)what; (void)arg; if (norder < 64) order[norder++] = (int)fd; }

static void disp(FILE *out, int backend, ev_uint32_t seed, int nready)
{
	struct event_config *cfg = event_config_new();
	const char *avoid[] = { "epoll", "epollsig", "devpoll", "kqueue", "evport", "win32", backend ? "poll" : "select", NULL };
	for (int i = 0; avoid[i]; i++) event_config_avoid_method(cfg, avoid[i]);
	struct event_base *base = event_base_new_with_config(cfg);
	event_config_free(cfg);
	int p[16][2]; struct event *ev[16];
	int maxfd = -1, minfd = 1 << 30;
	if (nready > 16) nready = 16;
	for (int i = 0; i < nready; i++) {
		if (pipe(p[i])) { perror("pipe"); exit(3); }
		if (write(p[i][1], "x", 1) != 1) exit(3);
		ev[i] = event_new(base, p[i][0], EV_READ, cb, NULL);
		event_add(ev[i], NULL);
		if (p[i][0] > maxfd) maxfd = p[i][0];
		if (p[i][0] < minfd) minfd = p[i][0];
	}
	norder = 0;
	base->weakrand_seed.seed = seed;
	event_base_loop(base, EVLOOP_NONBLOCK);
	ev_uint32_t after = base->weakrand_seed.seed;
	int n;
	int off = (base->th_notify_fd[0] >= 0 ? 1 : 0);	/* internal notification fd, registered first (threading enabled only) */
	if (backend == 0)
		n = nready + off;	/* poll: one pollfd per registered fd, in registration order */
	else {
		n = maxfd + 1;		/* select: nfds = highest fd + 1 */
		if (base->th_notify_fd[0] > maxfd) n = base->th_notify_fd[0] + 1;
	}
	fprintf(out, "[\"%d\",\"%u\",\"%d\"", n, (unsigned)after, steps_between(seed, after));
	for (int i = 0; i < norder; i++) {
		int idx = order[i];
		if (backend == 0) { for (int j = 0; j < nready; j++) if (p[j][0] == order[i]) idx = j + off; }
		fprintf(out, ",\"%d\"", idx);
	}
	fprintf(out, "]");
	for (int i = 0; i < nready; i++) { event_free(ev[i]); close(p[i][0]); close(p[i][1]); }
	event_base_free(base);
}

int main(void)
{
	char *line;
	while ((line = j_readline(stdin))) {
		if (!line[0]) { free(line); continue; }
		jval *sc = j_parse(line);
		const char *k = j_str(sc, "k", "");
		jval *vs = j_get(sc, "v");
		char *obuf = NULL; size_t olen = 0;
		FILE *out = open_memstream(&obuf, &olen);
		fprintf(out, "{\"o\":[");
		for (size_t i = 0; vs && i < vs->n; i++) {
			jval *v = vs->items[i];
			if (i) fputc(',', out);
			if (!strcmp(k, "step")) {
				struct evutil_weakrand_state s; s.seed = (ev_uint32_t)sv(v, 0);
				ev_int32_t r = evutil_weakrand_(&s);
				fprintf(out, "[\"%d\",\"%u\"]", (int)r, (unsigned)s.seed);
			} else if (!strcmp(k, "range")) {
				struct evutil_weakrand_state s; s.seed = (ev_uint32_t)sv(v, 0);
				ev_int32_t r = evutil_weakrand_range_(&s, (ev_int32_t)sv(v, 1));
				fprintf(out, "[\"%d\",\"%u\",\"%d\"]", (int)r, (unsigned)s.seed, steps_between((ev_uint32_t)sv(v, 0), s.seed));
			} else if (!strcmp(k, "disp")) {
				disp(out, (int)sv(v, 0), (ev_uint32_t)sv(v, 1), (int)sv(v, 2));
			} else fprintf(out, "null");
		}
		fprintf(out, "]}\n");
		fclose(out);
		fputs(obuf, stdout); fflush(stdout);
		free(obuf); free(line); j_free_all();
	}
	return 0;
}
