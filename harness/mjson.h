/* Minimal JSON reader for scenario files (one JSON value per line) and a tiny
 * writer.  Header-only; values live in an arena freed per line. */
#ifndef MJSON_H
#define MJSON_H
#include <stdio.h>
#include <stdlib.h>
#include <string.h>
#include <ctype.h>

typedef enum { J_NULL, J_BOOL, J_NUM, J_STR, J_ARR, J_OBJ } jtype;
typedef struct jval {
	jtype t;
	double num;
	long long i;         /* integer value when the number had no fraction */
	char *str; size_t slen; /* J_STR (NUL-terminated, may contain NULs: use slen) */
	struct jval **items; size_t n; /* J_ARR / J_OBJ values */
	char **keys;         /* J_OBJ */
} jval;

typedef struct { void **p; size_t n, cap; } jarena;
static jarena j_arena;
static void *j_alloc(size_t sz) {
	void *m = calloc(1, sz ? sz : 1);
	if (!m) { fprintf(stderr, "mjson: oom\n"); exit(3); }
	if (j_arena.n == j_arena.cap) {
		j_arena.cap = j_arena.cap ? j_arena.cap * 2 : 1024;
		j_arena.p = realloc(j_arena.p, j_arena.cap * sizeof(void *));
	}
	j_arena.p[j_arena.n++] = m;
	return m;
}
static void j_free_all(void) {
	for (size_t i = 0; i < j_arena.n; i++) free(j_arena.p[i]);
	j_arena.n = 0;
}
static void j_ws(const char **s) { while (**s && isspace((unsigned char)**s)) (*s)++; }
static jval *j_parse_val(const char **s);
static void j_push(jval *v, jval *item, char *key) {
	if ((v->n & (v->n + 1)) == 0) { /* grow at 0,1,3,7,... */
		size_t cap = (v->n + 1) * 2;
		jval **ni = j_alloc(cap * sizeof(jval *));
		if (v->n) memcpy(ni, v->items, v->n * sizeof(jval *));
		v->items = ni;
		if (v->t == J_OBJ) {
			char **nk = j_alloc(cap * sizeof(char *));
			if (v->n) memcpy(nk, v->keys, v->n * sizeof(char *));
			v->keys = nk;
		}
	}
	v->items[v->n] = item;
	if (v->t == J_OBJ) v->keys[v->n] = key;
	v->n++;
}
static char *j_parse_str(const char **s, size_t *lenp) {
	const char *p = *s + 1;
	size_t cap = 16, n = 0;
	char *out = j_alloc(cap);
	while (*p && *p != '"') {
		unsigned c = (unsigned char)*p++;
		if (c == '\\') {
			c = (unsigned char)*p++;
			switch (c) {
			case 'n': c = '\n'; break; case 't': c = '\t'; break;
			case 'r': c = '\r'; break; case 'b': c = '\b'; break;
			case 'f': c = '\f'; break;
			case 'u': { unsigned v = 0; for (int k = 0; k < 4 && *p; k++) { char h = *p++; v = v * 16 + (isdigit((unsigned char)h) ? h - '0' : (tolower(h) - 'a' + 10)); } c = v & 0xff; break; }
			default: break;
			}
		}
		if (n + 2 > cap) { char *no = j_alloc(cap * 2); memcpy(no, out, n); out = no; cap *= 2; }
		out[n++] = (char)c;
	}
	out[n] = 0;
	if (*p == '"') p++;
	*s = p;
	if (lenp) *lenp = n;
	return out;
}
static jval *j_parse_val(const char **s) {
	jval *v = j_alloc(sizeof(*v));
	j_ws(s);
	if (**s == '{') {
		v->t = J_OBJ; (*s)++; j_ws(s);
		while (**s && **s != '}') {
			j_ws(s);
			char *k = j_parse_str(s, NULL);
			j_ws(s); if (**s == ':') (*s)++;
			jval *it = j_parse_val(s);
			j_push(v, it, k);
			j_ws(s); if (**s == ',') (*s)++;
			j_ws(s);
		}
		if (**s == '}') (*s)++;
	} else if (**s == '[') {
		v->t = J_ARR; (*s)++; j_ws(s);
		while (**s && **s != ']') {
			jval *it = j_parse_val(s);
			j_push(v, it, NULL);
			j_ws(s); if (**s == ',') (*s)++;
			j_ws(s);
		}
		if (**s == ']') (*s)++;
	} else if (**s == '"') {
		v->t = J_STR; v->str = j_parse_str(s, &v->slen);
	} else if (!strncmp(*s, "true", 4)) { v->t = J_BOOL; v->i = 1; *s += 4; }
	else if (!strncmp(*s, "false", 5)) { v->t = J_BOOL; v->i = 0; *s += 5; }
	else if (!strncmp(*s, "null", 4)) { v->t = J_NULL; *s += 4; }
	else {
		char *end;
		v->t = J_NUM; v->num = strtod(*s, &end);
		v->i = strtoll(*s, NULL, 10);
		if (end == *s) { fprintf(stderr, "mjson: bad value at '%.20s'\n", *s); exit(3); }
		*s = end;
	}
	return v;
}
static jval *j_parse(const char *s) { return j_parse_val(&s); }
static jval *j_get(const jval *o, const char *k) {
	if (!o || o->t != J_OBJ) return NULL;
	for (size_t i = 0; i < o->n; i++) if (!strcmp(o->keys[i], k)) return o->items[i];
	return NULL;
}
static long long j_int(const jval *o, const char *k, long long dflt) {
	jval *v = j_get(o, k);
	if (!v) return dflt;
	if (v->t == J_NUM || v->t == J_BOOL) return v->i;
	return dflt;
}
static const char *j_str(const jval *o, const char *k, const char *dflt) {
	jval *v = j_get(o, k);
	return (v && v->t == J_STR) ? v->str : dflt;
}
/* read one line of arbitrary length; returns malloc'd buffer or NULL at EOF */
static char *j_readline(FILE *f) {
	size_t cap = 1 << 16, n = 0; char *b = malloc(cap); int c;
	while ((c = fgetc(f)) != EOF) {
		if (n + 2 > cap) { cap *= 2; b = realloc(b, cap); }
		if (c == '\n') break;
		b[n++] = (char)c;
	}
	if (c == EOF && n == 0) { free(b); return NULL; }
	b[n] = 0; return b;
}
/* writer: escape a byte string as a JSON string */
static void j_put_str(FILE *f, const char *s, size_t n) {
	fputc('"', f);
	for (size_t i = 0; i < n; i++) {
		unsigned char c = (unsigned char)s[i];
		if (c == '"' || c == '\\') { fputc('\\', f); fputc(c, f); }
		else if (c < 0x20 || c >= 0x7f) fprintf(f, "\\u%04x", c);
		else fputc(c, f);
	}
	fputc('"', f);
}
/* CPU-time watchdog: a scenario that burns `sec` seconds of CPU is a genuine hang
 * (independent of machine load); the driver exits with status 98. */
#include <sys/time.h>
#include <signal.h>
#include <unistd.h>
static void j_watchdog_fire(int s) { static const char m[] = "HANG: scenario exceeded its CPU-time budget\n"; (void)s; if (write(2, m, sizeof m - 1) < 0) {} _exit(98); }
static void j_watchdog(int sec) {
	struct itimerval it = {{0, 0}, {sec, 0}};
	signal(SIGVTALRM, j_watchdog_fire);
	setitimer(ITIMER_VIRTUAL, &it, NULL);
}
#endif
