/* Driver for specs/Signals.tla (C07, binding G): real signals raised synchronously,
 * disposition read back with sigaction()/sigprocmask() after every step. */
#include <event2/event.h>
#include <signal.h>
#include <unistd.h>
#include "mjson.h"
#include "vclock.h"

static struct event_base *base;
static struct event *ev[5];
static jval *script[5];
static int signo[2] = { SIGUSR1, SIGUSR2 };
static int waits0;
struct cbrec { int e, n, it; };
static struct cbrec cbl[256];
static int ncb;
static volatile sig_atomic_t custom_hits;
static void custom_handler(int s) { custom_hits++; }

static int sigidx(const char *s) { return s[0] == 'A' ? 0 : 1; }
static int exec_op(jval *op);
static void cb(evutil_socket_t fd, short what, void *arg)
{
	int e = (int)(intptr_t)arg, it = (int)(vt_nwaits - waits0);
	jval *sc;
	if (ncb && cbl[ncb - 1].e == e && cbl[ncb - 1].it == it) cbl[ncb - 1].n++;
	else if (ncb < 256) { cbl[ncb].e = e; cbl[ncb].n = 1; cbl[ncb].it = it; ncb++; }
	sc = script[e];
	if (sc) {
		script[e] = NULL; /* one-shot */
		if (strcmp(j_str(sc, "a", ""), "raise") || event_pending(ev[sigidx(j_str(sc, "s", "A")) * 2 + 1], EV_SIGNAL, NULL)
		    || event_pending(ev[sigidx(j_str(sc, "s", "A")) * 2 + 2], EV_SIGNAL, NULL))
			exec_op(sc);
	}
}
static void set_prior(int s, const char *p)
{
	struct sigaction sa; sigset_t m;
	memset(&sa, 0, sizeof sa);
	sa.sa_handler = !strcmp(p, "ign") ? SIG_IGN : !strcmp(p, "custom") ? custom_handler : SIG_DFL;
	sigemptyset(&sa.sa_mask);
	sigaction(s, &sa, NULL);
	sigemptyset(&m); sigaddset(&m, s); sigprocmask(SIG_UNBLOCK, &m, NULL);
}
static void print_disp(FILE *o, const char *k, int s)
{
	struct sigaction cur; sigset_t m;
	const char *h;
	sigaction(s, NULL, &cur);
	h = cur.sa_handler == SIG_DFL ? "dfl" : cur.sa_handler == SIG_IGN ? "ign" : cur.sa_handler == custom_handler ? "custom" : "lib";
	sigprocmask(SIG_BLOCK, NULL, &m);
	fprintf(o, "\"%s\":{\"h\":\"%s\",\"b\":%d}", k, h, sigismember(&m, s) ? 1 : 0);
}
static int exec_op(jval *op)
{
	const char *a = j_str(op, "a", "");
	int e = (int)j_int(op, "e", 0);
	if (!strcmp(a, "add")) return event_add(ev[e], NULL);
	if (!strcmp(a, "del")) return event_del(ev[e]);
	if (!strcmp(a, "raise")) { raise(signo[sigidx(j_str(op, "s", "A"))]); return 0; }
	if (!strcmp(a, "script")) { script[e] = j_get(op, "s"); return 0; }
	if (!strcmp(a, "loop")) { ncb = 0; waits0 = (int)vt_nwaits; return event_base_loop(base, EVLOOP_NONBLOCK) < 0 ? -1 : 0; }
	if (!strcmp(a, "reinit")) return event_reinit(base);
	if (!strcmp(a, "basefree")) { int i; for (i = 1; i <= 4; i++) { /* events must not outlive their base's bookkeeping */ } event_base_free(base); base = NULL; return 0; }
	return -98;
}
static void quiet_log(int sev, const char *msg) { (void)sev; (void)msg; }
static void run_scenario(jval *sc, FILE *out)
{
	jval *cfg = j_get(sc, "cfg"), *h = j_get(sc, "h");
	struct event_config *ec = event_config_new();
	size_t k; int i;
	set_prior(SIGUSR1, j_str(cfg, "priorA", "dfl"));
	set_prior(SIGUSR2, j_str(cfg, "priorB", "dfl"));
	if (!strcmp(j_str(cfg, "mech", "selfpipe"), "signalfd")) event_config_set_flag(ec, EVENT_BASE_FLAG_USE_SIGNALFD);
	{ const char *b = j_str(cfg, "backend", "epoll"); static const char *ms[] = {"epoll", "poll", "select", NULL};
	  for (i = 0; ms[i]; i++) if (strcmp(ms[i], b)) event_config_avoid_method(ec, ms[i]); }
	base = event_base_new_with_config(ec);
	event_config_free(ec);
	memset(script, 0, sizeof script);
	for (i = 1; i <= 4; i++)
		ev[i] = event_new(base, signo[(i - 1) / 2], EV_SIGNAL | (i == 2 ? 0 : EV_PERSIST), cb, (void *)(intptr_t)i);
	fprintf(out, "{\"obs\":[");
	for (k = 0; h && k < h->n; k++) {
		jval *op = h->items[k];
		const char *a = j_str(op, "a", "");
		int r = exec_op(op);
		fprintf(out, "%s{\"r\":%d,", k ? "," : "", r);
		print_disp(out, "dA", SIGUSR1); fputc(',', out); print_disp(out, "dB", SIGUSR2);
		if (base) {
			fprintf(out, ",\"p\":[");
			for (i = 1; i <= 4; i++) fprintf(out, "%s%d", i > 1 ? "," : "", event_pending(ev[i], EV_SIGNAL, NULL) ? 1 : 0);
			fputc(']', out);
		}
		if (!strcmp(a, "loop")) {
			fprintf(out, ",\"cb\":[");
			for (i = 0; i < ncb; i++) fprintf(out, "%s{\"e\":%d,\"n\":%d,\"it\":%d}", i ? "," : "", cbl[i].e, cbl[i].n, cbl[i].it);
			fputc(']', out);
		}
		fputc('}', out);
		if (!base) break;
	}
	fprintf(out, "]}\n");
	if (base) { for (i = 1; i <= 4; i++) event_free(ev[i]); event_base_free(base); base = NULL; }
	else { for (i = 1; i <= 4; i++) free(ev[i]); }
	set_prior(SIGUSR1, "ign"); set_prior(SIGUSR2, "ign");
}
int main(void)
{
	char *line;
	event_set_log_callback(quiet_log);
	while ((line = j_readline(stdin))) {
		if (line[0]) {
			jval *sc = j_parse(line); char *mb = NULL; size_t ml = 0; FILE *o = open_memstream(&mb, &ml);
			run_scenario(sc, o); fclose(o); fwrite(mb, 1, ml, stdout); fflush(stdout); free(mb); j_free_all();
		}
		free(line);
	}
	return 0;
}
