#ifndef VCLOCK_H
#define VCLOCK_H
#include <stdint.h>
extern int64_t vt_now_ns, vt_wall_offset_ns;
extern int vt_enabled;
extern int64_t (*vt_wait_policy)(int64_t timeout_ns);
extern void (*vt_on_wait)(int64_t timeout_ns, int nready);
extern int (*vt_pre_wait)(int64_t timeout_ns);
extern long vt_nwaits;
extern int64_t vt_last_timeout_ns;
extern int vt_would_block;
#define VT_WRAP_LDFLAGS "-Wl,--wrap=clock_gettime,--wrap=gettimeofday,--wrap=epoll_pwait2,--wrap=epoll_wait,--wrap=poll,--wrap=select"
#endif
