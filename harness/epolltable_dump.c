/* C06 binding: the *compiled* epoll operation table and its use.
 *
 * The whole of /repo/epoll.c is textually included (its only global symbol is
 * renamed), so that this program sees exactly the table, the index macro and
 * the static function epoll_apply_one_change() that the library is built from.
 *
 *   epolltable_dump dump    one ndjson record per table entry  {"k":"row",...}
 *                           and per (old,rc,wc,cc,et) combination the value of
 *                           the real EPOLL_OP_TABLE_INDEX macro {"k":"idx",...}
 *   epolltable_dump kernel  every table entry that issues an operation is applied
 *                           with a raw epoll_ctl() to a real epoll fd holding
 *                           `old`; result + registration read back from
 *                           /proc/self/fdinfo/<epfd>       {"k":"kern",...}
 *   epolltable_dump apply   the real epoll_apply_one_change() is called for
 *                           every (old,rc,wc,cc,et) without add+del, on a real
 *                           epoll fd holding `actual` (= old, or nothing: the fd
 *                           was closed and reopened, or everything: stale dup)
 *                                                           {"k":"app",...}
 * No oracle logic here: everything printed is an observation.
 */
#define epollops vf_epollops_copy
#include "epoll.c"
#undef epollops

#include <stdio.h>
#include <stdlib.h>
#include <string.h>
#include <sys/socket.h>

static int code_to_events(int c) /* c: bit0 R, bit1 W, bit2 C */
{
	return ((c & 1) ? EV_READ : 0) | ((c & 2) ? EV_WRITE : 0) | ((c & 4) ? EV_CLOSED : 0);
}
static unsigned code_to_epoll(int c)
{
	return ((c & 1) ? EPOLLIN : 0) | ((c & 2) ? EPOLLOUT : 0) | ((c & 4) ? EPOLLRDHUP : 0);
}
static const char *opname(int op)
{
	return op == EPOLL_CTL_ADD ? "ADD" : op == EPOLL_CTL_MOD ? "MOD" : op == EPOLL_CTL_DEL ? "DEL" :
	    op == 0 ? "NONE" : "BAD";
}
static void put_mask(const char *pfx, unsigned m)
{
	printf("\"%sr\":%d,\"%sw\":%d,\"%sc\":%d,\"%set\":%d,\"%sx\":%u", pfx, !!(m & EPOLLIN), pfx, !!(m & EPOLLOUT),
	    pfx, !!(m & EPOLLRDHUP), pfx, !!(m & EPOLLET), pfx,
	    m & ~(unsigned)(EPOLLIN | EPOLLOUT | EPOLLRDHUP | EPOLLET));
}

/* registration of fd `tfd` in epfd as the kernel shows it; -1 = not registered */
static long read_reg(int epfd, int tfd)
{
	char path[64], line[256];
	long res = -1;
	FILE *f;
	snprintf(path, sizeof(path), "/proc/self/fdinfo/%d", epfd);
	f = fopen(path, "r");
	if (!f) { perror("fdinfo"); exit(3); }
	while (fgets(line, sizeof(line), f)) {
		int t; unsigned ev;
		if (sscanf(line, "tfd: %d events: %x", &t, &ev) == 2 && t == tfd)
			res = (long)ev;
	}
	fclose(f);
	return res;
}

static void put_reg(const char *pfx, long reg)
{
	if (reg < 0)
		printf("\"%son\":0,\"%sr\":0,\"%sw\":0,\"%sc\":0,\"%set\":0,\"%sx\":0", pfx, pfx, pfx, pfx, pfx, pfx);
	else {
		printf("\"%son\":1,", pfx);
		/* the kernel always adds EPOLLERR|EPOLLHUP to a registration */
		put_mask(pfx, (unsigned)reg & ~(unsigned)(EPOLLERR | EPOLLHUP));
	}
}

static int sp[2];
static int fresh_epfd(int actual)
{
	int epfd = epoll_create1(EPOLL_CLOEXEC);
	if (epfd < 0) { perror("epoll_create1"); exit(3); }
	if (actual) {
		struct epoll_event e; memset(&e, 0, sizeof(e));
		e.events = code_to_epoll(actual); e.data.fd = sp[0];
		if (epoll_ctl(epfd, EPOLL_CTL_ADD, sp[0], &e) < 0) { perror("setup ADD"); exit(3); }
	}
	return epfd;
}

static void quiet_log(int sev, const char *msg) { (void)sev; (void)msg; }

int main(int argc, char **argv)
{
	const char *mode = argc > 1 ? argv[1] : "dump";
	int n = (int)(sizeof(epoll_op_table) / sizeof(epoll_op_table[0]));
	event_set_log_callback(quiet_log);
	if (socketpair(AF_UNIX, SOCK_STREAM, 0, sp) < 0) { perror("socketpair"); return 3; }

	if (!strcmp(mode, "dump")) {
		int i, old, rc, wc, cc, et;
		for (i = 0; i < n; i++) {
			printf("{\"k\":\"row\",\"i\":%d,\"n\":%d,\"op\":\"%s\",\"opn\":%d,\"ev\":%d,", i, n,
			    opname(epoll_op_table[i].op), epoll_op_table[i].op, epoll_op_table[i].events);
			put_mask("", (unsigned)epoll_op_table[i].events);
			printf("}\n");
		}
		for (old = 0; old < 8; old++) for (rc = 0; rc < 4; rc++) for (wc = 0; wc < 4; wc++)
		for (cc = 0; cc < 4; cc++) for (et = 0; et < 2; et++) {
			struct event_change ch; memset(&ch, 0, sizeof(ch));
			/* besides ET also the other flag bits a change may legitimately carry */
			int fl = et ? (EV_CHANGE_ET | EV_CHANGE_PERSIST) : 0;
			ch.fd = sp[0];
			ch.old_events = (short)code_to_events(old);
			ch.read_change = (ev_uint8_t)(rc ? (rc | fl) : 0);
			ch.write_change = (ev_uint8_t)(wc ? (wc | fl) : 0);
			ch.close_change = (ev_uint8_t)(cc ? (cc | fl) : 0);
			printf("{\"k\":\"idx\",\"old\":%d,\"rc\":%d,\"wc\":%d,\"cc\":%d,\"fl\":%d,\"idx\":%d}\n", old, rc, wc, cc,
			    et, (int)EPOLL_OP_TABLE_INDEX(&ch));
		}
	} else if (!strcmp(mode, "kernel")) {
		int i;
		for (i = 0; i < n; i++) {
			int old = ((i >> 6) & 3) | (((i >> 8) & 1) << 2);
			int op = epoll_op_table[i].op, events = epoll_op_table[i].events;
			int epfd, r, err;
			struct epoll_event e;
			if (!events || !(op == EPOLL_CTL_ADD || op == EPOLL_CTL_MOD || op == EPOLL_CTL_DEL))
				continue;
			epfd = fresh_epfd(old);
			memset(&e, 0, sizeof(e));
			e.events = (unsigned)events; e.data.fd = sp[0];
			errno = 0;
			r = epoll_ctl(epfd, op, sp[0], &e);
			err = errno;
			printf("{\"k\":\"kern\",\"i\":%d,\"old\":%d,\"ok\":%d,\"errno\":%d,", i, old, r == 0, r == 0 ? 0 : err);
			put_reg("", read_reg(epfd, sp[0]));
			printf("}\n");
			close(epfd);
		}
	} else if (!strcmp(mode, "apply")) {
		int old, rc, wc, cc, et, av;
		for (old = 0; old < 8; old++) for (rc = 0; rc < 3; rc++) for (wc = 0; wc < 3; wc++)
		for (cc = 0; cc < 3; cc++) for (et = 0; et < 2; et++) for (av = 0; av < 3; av++) {
			/* av 0: the kernel holds `old` (normal); 1: holds nothing although old != 0
			 * (fd closed and reopened); 2: holds R|W|C although libevent believes `old`
			 * (stale registration of a dup'ed file) */
			int actual = av == 0 ? old : av == 1 ? 0 : 7;
			struct event_change ch; struct epollop eop; int r;
			if (av == 1 && old == 0) continue;
			if (av == 2 && old == 7) continue;
			memset(&ch, 0, sizeof(ch)); memset(&eop, 0, sizeof(eop));
			eop.epfd = fresh_epfd(actual);
			ch.fd = sp[0];
			ch.old_events = (short)code_to_events(old);
			ch.read_change = (ev_uint8_t)(rc ? (rc | (et ? EV_CHANGE_ET : 0)) : 0);
			ch.write_change = (ev_uint8_t)(wc ? (wc | (et ? EV_CHANGE_ET : 0)) : 0);
			ch.close_change = (ev_uint8_t)(cc ? (cc | (et ? EV_CHANGE_ET : 0)) : 0);
			r = epoll_apply_one_change(NULL, &eop, &ch);
			printf("{\"k\":\"app\",\"old\":%d,\"rc\":%d,\"wc\":%d,\"cc\":%d,\"fl\":%d,\"actual\":%d,\"ret\":%d,", old, rc, wc,
			    cc, et, actual, r);
			put_reg("", read_reg(eop.epfd, sp[0]));
			printf("}\n");
			close(eop.epfd);
		}
	} else {
		fprintf(stderr, "usage: %s dump|kernel|apply\n", argv[0]);
		return 2;
	}
	return 0;
}
