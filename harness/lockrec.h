/* Recording lock / condition callbacks for libevent (single- or multi-threaded
 * drivers).  Every lock operation becomes one ndjson event appended to the trace
 * file named by $VERIF_LOCKTRACE (suffix .<pid>).  The locks do not block: a
 * re-lock of a non-recursive lock by its owner is *recorded* instead of
 * dead-locking, so that the trace specification (specs/Locks.tla) can reject it.
 * Usage: lockrec_install() before any event_base exists; lockrec_api_enter(name)
 * / lockrec_api_return(name) around every public call; lockrec_cb_enter/exit
 * around user callbacks; lockrec_reset() between scenarios.
 */
#ifndef LOCKREC_H
#define LOCKREC_H
#include <event2/thread.h>
#include <stdio.h>
#include <stdlib.h>
#include <unistd.h>

static FILE *lr_f;
static int lr_on, lr_next_id = 1;
struct lr_lock { int id; unsigned type; int count; };

static void *lr_alloc(unsigned locktype) {
	struct lr_lock *l = calloc(1, sizeof(*l));
	l->id = lr_next_id++; l->type = locktype;
	if (lr_f) fprintf(lr_f, "{\"e\":\"Alloc\",\"l\":%d,\"rec\":%d}\n", l->id, (locktype & EVTHREAD_LOCKTYPE_RECURSIVE) ? 1 : 0);
	return l;
}
static void lr_free(void *lock, unsigned locktype) {
	struct lr_lock *l = lock;
	if (lr_f) fprintf(lr_f, "{\"e\":\"Free\",\"l\":%d}\n", l->id);
	free(l);
}
static int lr_lock(unsigned mode, void *lock) {
	struct lr_lock *l = lock;
	if (mode & EVTHREAD_TRY) {
		int ok = (l->count == 0) || (l->type & EVTHREAD_LOCKTYPE_RECURSIVE);
		if (lr_f) fprintf(lr_f, "{\"e\":\"Try\",\"l\":%d,\"ok\":%d}\n", l->id, ok);
		if (ok) l->count++;
		return ok ? 0 : 1;
	}
	if (lr_f) fprintf(lr_f, "{\"e\":\"Lock\",\"l\":%d}\n", l->id);
	l->count++;
	return 0;
}
static int lr_unlock(unsigned mode, void *lock) {
	struct lr_lock *l = lock;
	if (lr_f) fprintf(lr_f, "{\"e\":\"Unlock\",\"l\":%d}\n", l->id);
	if (l->count > 0) l->count--;
	return 0;
}
struct lr_cond { int id; };
static void *lr_calloc_cond(unsigned t) { struct lr_cond *c = calloc(1, sizeof(*c)); c->id = lr_next_id++; return c; }
static void lr_free_cond(void *c) { free(c); }
static int lr_signal(void *c, int broadcast) { return 0; }
static int lr_wait(void *c, void *lock, const struct timeval *tv) {
	struct lr_lock *l = lock;
	if (lr_f) fprintf(lr_f, "{\"e\":\"CondWait\",\"l\":%d}\n", l->id);
	return 0;
}
static unsigned long lr_id(void) { return 1; }

static void lockrec_install(void) {
	const char *p = getenv("VERIF_LOCKTRACE");
	static struct evthread_lock_callbacks cbs = { EVTHREAD_LOCK_API_VERSION, EVTHREAD_LOCKTYPE_RECURSIVE,
	    lr_alloc, lr_free, lr_lock, lr_unlock };
	static struct evthread_condition_callbacks ccbs = { EVTHREAD_CONDITION_API_VERSION,
	    lr_calloc_cond, lr_free_cond, lr_signal, lr_wait };
	char path[4096];
	if (!p) return;
	snprintf(path, sizeof path, "%s.%d", p, (int)getpid());
	lr_f = fopen(path, "w");
	if (!lr_f) { perror(path); exit(3); }
	setvbuf(lr_f, NULL, _IOFBF, 1 << 20);
	evthread_set_lock_callbacks(&cbs);
	evthread_set_condition_callbacks(&ccbs);
	evthread_set_id_callback(lr_id);
	lr_on = 1;
}
static void lockrec_api_enter(const char *name) { if (lr_f) fprintf(lr_f, "{\"e\":\"Enter\",\"n\":\"%s\"}\n", name); }
static void lockrec_api_return(const char *name) { if (lr_f) fprintf(lr_f, "{\"e\":\"Return\",\"n\":\"%s\"}\n", name); }
static void lockrec_cb_enter(void) { if (lr_f) fprintf(lr_f, "{\"e\":\"CbEnter\"}\n"); }
static void lockrec_cb_exit(void) { if (lr_f) fprintf(lr_f, "{\"e\":\"CbExit\"}\n"); }
static void lockrec_reset(const char *tag) { if (lr_f) { fprintf(lr_f, "{\"e\":\"Reset\",\"n\":\"%s\"}\n", tag); fflush(lr_f); } }
#endif
