/* Driver for specs/Bev.tla (binding G).
 * stdin: one scenario per line {"cfg":{...},"h":[step,...]}; every step is an op
 * record of the specification.  The driver performs the op on real bufferevents
 * (pair / filter over a pair / sockets) under the virtual clock and prints what
 * can be observed afterwards; the Python side compares with the prediction.
 * stdout: one line per scenario {"obs":[obs,...]}.
 *
 * Byte number p of the stream written by application endpoint e has the value
 * sbyte(e, p); everything the application reads, and the content of every
 * buffer after every step, is compared with that numbering ("bad" counts
 * mismatching bytes; the specification predicts 0).
 */
#include <event2/event.h>
#include <event2/buffer.h>
#include <event2/bufferevent.h>
#include <event2/bufferevent_struct.h>
#include <event2/util.h>
#include <sys/socket.h>
#include <sys/ioctl.h>
#include <netinet/in.h>
#include <arpa/inet.h>
#include <poll.h>
#include <signal.h>
#include <unistd.h>
#include <fcntl.h>
#include <errno.h>
#include "mjson.h"
#include "vclock.h"

#define BASE_NS (1000LL * 1000000000LL)
#define NEP 4

struct ep {
	struct bufferevent *bev;
	int alive;        /* the application has not freed it */
	int exists;       /* a bufferevent object was created */
	long dr;          /* read callback drains this many units (99 = all) */
	const char *xa, *xk;
	long long wr, rd; /* bytes written / consumed by the application */
	long long bad;
	int fin, eofd, badconn;
	int fd;
};
static struct ep E[NEP];
static struct event_base *base[3];
static int kind;            /* 0 pair 1 filt 2 sock */
static long unit, maxcb;
static int64_t tick_ns;
static int defer_opt, conn_mode /* 0 none 1 ok 2 refused */, use_tcp;
static const char *filtfn;
static int ncb, teardown;
static int basefreed;
static int ref_cleanups;     /* cleanup callbacks of evbuffer_add_reference chunks that have run */
static int free_ctx_calls;   /* calls of the filter's free_context */
static FILE *out;
static char cblog[1 << 16];
static size_t cblen;
static int listen_fd = -1;
static struct sockaddr_in conn_addr;

static unsigned char sbyte(int e, long long p) { return (unsigned char)((p * 131 + e * 89 + (p >> 7) * 3 + 17) & 0xff); }
static int napp(void) { return kind == 1 ? 3 : 2; }
static int is_app(int e) { return kind == 1 ? (e == 2 || e == 3) : (e == 1 || e == 2); }
static int far_of(int e) { return kind == 1 ? (e == 3 ? 2 : 3) : 3 - e; }
static long long units(long long bytes) { return bytes % unit == 0 ? bytes / unit : -2000000 - bytes; }

/* compare buffer content with stream of endpoint src from position pos */
static long long check_buf(struct evbuffer *b, int src, long long pos)
{
	/* evbuffer_peek: copyout refuses buffers whose front is frozen (a bufferevent's output) */
	int nv = evbuffer_peek(b, -1, NULL, NULL, 0), i;
	struct evbuffer_iovec *v;
	long long bad = 0, off = 0;
	size_t j;
	if (nv <= 0) return 0;
	v = calloc((size_t)nv, sizeof *v);
	nv = evbuffer_peek(b, -1, NULL, v, nv);
	for (i = 0; i < nv; i++)
		for (j = 0; j < v[i].iov_len; j++, off++)
			if (((unsigned char *)v[i].iov_base)[j] != sbyte(src, pos + off)) bad++;
	if ((size_t)off != evbuffer_get_length(b)) bad += 1000000;
	free(v);
	return bad;
}

static void do_free(int e)
{
	if (!E[e].alive) return;
	E[e].alive = 0;
	bufferevent_free(E[e].bev);
}

static int do_write(int e, long n)
{
	size_t len = (size_t)(n * unit), i;
	unsigned char *buf = malloc(len ? len : 1);
	int r;
	for (i = 0; i < len; i++) buf[i] = sbyte(e, E[e].wr + (long long)i);
	r = bufferevent_write(E[e].bev, buf, len);
	if (r == 0) E[e].wr += len;
	free(buf);
	return r;
}

static void user_cb(int e, const char *k, short what)
{
	struct bufferevent *bev = E[e].bev;
	size_t il, ol, rl = 0, rh = 0, wl = 0, wh = 0;
	long d = 0;
	int x = 0, guard;
	if (teardown) return;
	il = evbuffer_get_length(bufferevent_get_input(bev));
	ol = evbuffer_get_length(bufferevent_get_output(bev));
	bufferevent_getwatermark(bev, EV_READ, &rl, &rh);
	bufferevent_getwatermark(bev, EV_WRITE, &wl, &wh);
	guard = ncb >= maxcb;
	ncb++;
	if (what & BEV_EVENT_EOF) E[e].eofd = 1;
	if (what & BEV_EVENT_ERROR) E[e].badconn = 1;
	if (!guard) {
		if (k[0] == 'r') {
			long long want = E[e].dr >= 99 ? (long long)il : E[e].dr * unit;
			if (want > (long long)il) want = (long long)il;
			d = (long)(want / unit);
		}
		x = E[e].xa && strcmp(E[e].xa, "none") && E[e].xk && E[e].xk[0] == k[0];
	} else
		x = 9;
	cblen += snprintf(cblog + cblen, sizeof(cblog) - cblen,
	    "%s{\"e\":%d,\"k\":\"%s\",\"f\":%d,\"il\":%lld,\"ol\":%lld,\"t\":%lld,\"rl\":%lld,\"rh\":%lld,\"wl\":%lld,\"d\":%ld,\"x\":%d,\"dead\":%d}",
	    cblen ? "," : "", e, k, (int)what, units(il), units(ol), (long long)((vt_now_ns - BASE_NS) / tick_ns),
	    units(rl), units(rh), units(wl), d, x, !E[e].alive);
	if (guard) {
		bufferevent_disable(bev, EV_READ | EV_WRITE);
		bufferevent_setcb(bev, NULL, NULL, NULL, NULL);
		return;
	}
	if (d > 0) {
		size_t len = (size_t)d * unit, i;
		unsigned char *tmp = malloc(len);
		size_t got = bufferevent_read(bev, tmp, len);
		int src = far_of(e);
		for (i = 0; i < got; i++) if (tmp[i] != sbyte(src, E[e].rd + (long long)i)) E[e].bad++;
		if (got != len) E[e].bad += 1000000;
		E[e].rd += got;
		free(tmp);
	}
	if (x) {
		const char *xa = E[e].xa;
		if (!strcmp(xa, "free")) do_free(e);
		else if (!strcmp(xa, "freep")) { if (E[far_of(e)].alive) do_free(far_of(e)); }
		else if (!strcmp(xa, "disR")) bufferevent_disable(bev, EV_READ);
		else if (!strcmp(xa, "enR")) { if (!E[e].eofd) bufferevent_enable(bev, EV_READ); }
		else if (!strcmp(xa, "clr")) bufferevent_setcb(bev, NULL, NULL, NULL, NULL);
		else if (!strcmp(xa, "w1")) { if (!E[e].fin && !E[e].badconn) do_write(e, 1); }
		else if (!strcmp(xa, "wm0")) bufferevent_setwatermark(bev, EV_READ, 0, 0);
		else if (!strcmp(xa, "freebrk")) { do_free(e); event_base_loopbreak(base[kind == 2 ? e : 1]); }
	}
}
static void rcb(struct bufferevent *b, void *arg) { user_cb((int)(intptr_t)arg, "r", 0); }
static void wcb(struct bufferevent *b, void *arg) { user_cb((int)(intptr_t)arg, "w", 0); }
static void ecb(struct bufferevent *b, short what, void *arg) { user_cb((int)(intptr_t)arg, "e", what); }

static enum bufferevent_filter_result
filt(struct evbuffer *src, struct evbuffer *dst, ev_ssize_t lim, enum bufferevent_flush_mode mode, void *ctx)
{
	long long have = (long long)(evbuffer_get_length(src) / unit);
	long long cap = lim < 0 ? have : ((long long)lim / unit < have ? (long long)lim / unit : have);
	long long k;
	if (!strcmp(filtfn, "id")) k = cap;
	else if (!strcmp(filtfn, "one")) k = cap < 1 ? cap : 1;
	else k = mode == BEV_NORMAL ? (cap >= 2 ? 2 : 0) : (cap < 2 ? cap : 2);
	if (k <= 0) return BEV_NEED_MORE;
	if (evbuffer_remove_buffer(src, dst, (size_t)(k * unit)) < 0) return BEV_ERROR;
	return BEV_OK;
}

static void ref_cleanup(const void *data, size_t len, void *arg) { ref_cleanups++; free(arg); }
static int do_writeref(int e, long n)
{
	size_t len = (size_t)(n * unit), i;
	unsigned char *chunk = malloc(len ? len : 1);
	int r;
	for (i = 0; i < len; i++) chunk[i] = sbyte(e, E[e].wr + (long long)i);
	r = evbuffer_add_reference(bufferevent_get_output(E[e].bev), chunk, len, ref_cleanup, chunk);
	if (r == 0) E[e].wr += len; else free(chunk);
	return r;
}

static void filt_free_ctx(void *ctx) { free_ctx_calls++; free(ctx); }   /* a second call is a double free (ASan) */

static void mk_ep(int e, struct bufferevent *bev, int fd)
{
	memset(&E[e], 0, sizeof E[e]);
	E[e].bev = bev; E[e].alive = 1; E[e].exists = 1; E[e].xa = "none"; E[e].xk = "r"; E[e].fd = fd;
	if (is_app(e)) bufferevent_setcb(bev, rcb, wcb, ecb, (void *)(intptr_t)e);
}

/* no BEV_OPT_CLOSE_ON_FREE: the driver closes the descriptors at teardown, so that freeing one
 * end is not at the same time a shutdown seen by the other end */
static int sock_opts(void) { return defer_opt ? BEV_OPT_DEFER_CALLBACKS : 0; }

static int setup(void)
{
	struct bufferevent *pr[2];
	int i;
	memset(E, 0, sizeof E);
	base[1] = event_base_new();
	base[2] = kind == 2 ? event_base_new() : NULL;
	if (!base[1]) return -1;
	if (kind == 0 || kind == 1) {
		if (bufferevent_pair_new(base[1], 0, pr) < 0) return -1;
		mk_ep(1, pr[0], -1); mk_ep(2, pr[1], -1);
		if (kind == 1) {
			struct bufferevent *f = bufferevent_filter_new(pr[0], filt, filt, BEV_OPT_DEFER_CALLBACKS, filt_free_ctx, malloc(16));
			if (!f) return -1;
			mk_ep(3, f, -1);
		}
	} else if (conn_mode == 0) {
		int sv[2];
		if (use_tcp) {
			struct sockaddr_in a; socklen_t al = sizeof a; int l = socket(AF_INET, SOCK_STREAM, 0);
			memset(&a, 0, sizeof a); a.sin_family = AF_INET; a.sin_addr.s_addr = htonl(INADDR_LOOPBACK);
			if (bind(l, (struct sockaddr *)&a, sizeof a) < 0 || listen(l, 4) < 0) return -1;
			getsockname(l, (struct sockaddr *)&a, &al);
			sv[0] = socket(AF_INET, SOCK_STREAM, 0);
			if (connect(sv[0], (struct sockaddr *)&a, sizeof a) < 0) return -1;
			sv[1] = accept(l, NULL, NULL);
			close(l);
			if (sv[1] < 0) return -1;
		} else if (socketpair(AF_UNIX, SOCK_STREAM, 0, sv) < 0) return -1;
		for (i = 0; i < 2; i++) {
			evutil_make_socket_nonblocking(sv[i]);
			mk_ep(i + 1, bufferevent_socket_new(base[i + 1], sv[i], sock_opts()), sv[i]);
		}
	} else {
		socklen_t al = sizeof conn_addr;
		listen_fd = socket(AF_INET, SOCK_STREAM, 0);
		memset(&conn_addr, 0, sizeof conn_addr);
		conn_addr.sin_family = AF_INET; conn_addr.sin_addr.s_addr = htonl(INADDR_LOOPBACK);
		if (bind(listen_fd, (struct sockaddr *)&conn_addr, sizeof conn_addr) < 0) return -1;
		getsockname(listen_fd, (struct sockaddr *)&conn_addr, &al);
		if (conn_mode == 1) { if (listen(listen_fd, 4) < 0) return -1; }
		else { close(listen_fd); listen_fd = -1; }     /* nobody listens on that port now */
		mk_ep(1, bufferevent_socket_new(base[1], -1, sock_opts()), -1);
	}
	return 0;
}

static int do_connect(void)
{
	int r = bufferevent_socket_connect(E[1].bev, (struct sockaddr *)&conn_addr, sizeof conn_addr);
	E[1].fd = bufferevent_getfd(E[1].bev);
	if (conn_mode == 1) {
		struct pollfd p = { listen_fd, POLLIN, 0 };
		int fd2;
		vt_enabled = 0;
		poll(&p, 1, 3000);
		vt_enabled = 1;
		fd2 = accept(listen_fd, NULL, NULL);
		if (fd2 < 0) return -70;
		evutil_make_socket_nonblocking(fd2);
		mk_ep(2, bufferevent_socket_new(base[2], fd2, sock_opts()), fd2);
	}
	return r;
}

static long long inq(int e)
{
	int n = 0;
	if (kind != 2 || !E[e].alive || E[e].fd < 0) return 0;
	if (ioctl(E[e].fd, FIONREAD, &n) < 0) return -1;
	return n;
}

/* TCP only: loopback delivery is asynchronous in principle; give the kernel time to
 * make the bytes the scenario expects on the wire visible (environment, not oracle) */
static void settle(jval *step)
{
	jval *o = j_get(step, "o"), *eps = o ? j_get(o, "ep") : NULL;
	int e, spin;
	if (kind != 2 || !(use_tcp || conn_mode) || !eps) return;
	for (e = 1; e <= 2; e++) {
		long long want;
		if ((size_t)(e - 1) >= eps->n) break;
		want = j_int(eps->items[e - 1], "w", 0) * unit;
		for (spin = 0; spin < 2000 && want > 0 && inq(e) < want; spin++) usleep(500);
	}
}

static int exec_op(jval *op)
{
	const char *a = j_str(op, "a", "");
	int e = (int)j_int(op, "e", 0);
	struct bufferevent *bev = (e >= 1 && e < NEP) ? E[e].bev : NULL;
	struct timeval tr, tw;
	if (!strcmp(a, "loop")) {
		if (!base[e]) return -97;
		vt_now_ns += j_int(op, "t", 0) * tick_ns;
		ncb = 0;
		return event_base_loop(base[e], EVLOOP_NONBLOCK) < 0 ? -1 : 0;
	}
	if (!strcmp(a, "connect")) return do_connect();
	if (!strcmp(a, "basefree")) {
		/* release what the application still holds, then free the bases: pending finalizers run there */
		int i;
		if (kind == 1 && E[3].alive) do_free(3);
		for (i = 1; i <= 2; i++) if (E[i].exists && E[i].alive) do_free(i);
		for (i = 1; i <= 2; i++) if (base[i]) { event_base_free(base[i]); base[i] = NULL; }
		basefreed = 1;
		return 0;
	}
	if (!bev || !E[e].alive) return -99;
	if (!strcmp(a, "write")) return do_write(e, (long)j_int(op, "n", 0));
	if (!strcmp(a, "writeref")) return do_writeref(e, (long)j_int(op, "n", 0));
	if (!strcmp(a, "trig")) { bufferevent_trigger_event(bev, (short)j_int(op, "f", 0), BEV_TRIG_DEFER_CALLBACKS); return 0; }
	if (!strcmp(a, "read")) {      /* the application reads outside a callback */
		long long k = j_int(op, "n", 0);
		size_t il = evbuffer_get_length(bufferevent_get_input(bev)), i, got;
		size_t len = k >= 99 ? il : (size_t)(k * unit);
		unsigned char *tmp;
		if (len > il) len = il;
		tmp = malloc(len ? len : 1);
		got = bufferevent_read(bev, tmp, len);
		for (i = 0; i < got; i++) if (tmp[i] != sbyte(far_of(e), E[e].rd + (long long)i)) E[e].bad++;
		if (got != len) E[e].bad += 1000000;
		E[e].rd += got;
		free(tmp);
		return 0;
	}
	if (!strcmp(a, "enable")) return bufferevent_enable(bev, (short)j_int(op, "m", 0));
	if (!strcmp(a, "disable")) return bufferevent_disable(bev, (short)j_int(op, "m", 0));
	if (!strcmp(a, "wm")) {
		bufferevent_setwatermark(bev, (short)j_int(op, "m", 2), (size_t)(j_int(op, "lo", 0) * unit), (size_t)(j_int(op, "hi", 0) * unit));
		return 0;
	}
	if (!strcmp(a, "tmo")) {
		int64_t r = j_int(op, "tr", 0) * tick_ns, w = j_int(op, "tw", 0) * tick_ns;
		tr.tv_sec = r / 1000000000LL; tr.tv_usec = (r % 1000000000LL) / 1000;
		tw.tv_sec = w / 1000000000LL; tw.tv_usec = (w % 1000000000LL) / 1000;
		return bufferevent_set_timeouts(bev, r ? &tr : NULL, w ? &tw : NULL);
	}
	if (!strcmp(a, "flush")) {
		int m = (int)j_int(op, "m", 0), md = (int)j_int(op, "md", 0);
		if (md == 2 && (m & EV_WRITE)) E[e].fin = 1;
		return bufferevent_flush(bev, (short)m, md == 0 ? BEV_NORMAL : md == 1 ? BEV_FLUSH : BEV_FINISHED);
	}
	if (!strcmp(a, "shut")) { E[e].fin = 1; return shutdown(E[e].fd, SHUT_WR); }
	if (!strcmp(a, "free")) { do_free(e); return 0; }
	if (!strcmp(a, "clr")) { bufferevent_setcb(bev, NULL, NULL, NULL, NULL); return 0; }
	if (!strcmp(a, "script")) {
		E[e].dr = (long)j_int(op, "dr", 0); E[e].xa = j_str(op, "xa", "none"); E[e].xk = j_str(op, "xk", "r");
		return 0;
	}
	fprintf(stderr, "unknown op %s\n", a);
	return -98;
}

static void check_content(void)
{
	int e;
	for (e = 1; e <= napp(); e++) {
		struct evbuffer *in, *o;
		if (!E[e].alive || !is_app(e)) continue;
		in = bufferevent_get_input(E[e].bev); o = bufferevent_get_output(E[e].bev);
		E[e].bad += check_buf(in, far_of(e), E[e].rd);
		E[e].bad += check_buf(o, e, E[e].wr - (long long)evbuffer_get_length(o));
	}
	if (kind == 1 && E[3].alive && E[1].alive) {
		/* the underlying endpoint's buffers sit between the filter and the far end */
		struct evbuffer *ui = bufferevent_get_input(E[1].bev), *uo = bufferevent_get_output(E[1].bev);
		E[3].bad += check_buf(ui, 2, E[3].rd + (long long)evbuffer_get_length(bufferevent_get_input(E[3].bev)));
		E[3].bad += check_buf(uo, 3, E[3].wr - (long long)evbuffer_get_length(bufferevent_get_output(E[3].bev))
		    - (long long)evbuffer_get_length(uo));
	}
}

static void print_obs(int r)
{
	int e;
	check_content();
	fprintf(out, "{\"r\":%d,\"cb\":[%s],\"now\":%lld,\"ep\":[", r, cblog, (long long)((vt_now_ns - BASE_NS) / tick_ns));
	for (e = 1; e <= napp(); e++) {
		if (e > 1) fputc(',', out);
		if (E[e].alive)
			fprintf(out, "{\"il\":%lld,\"ol\":%lld,\"en\":%d,\"rd\":%lld,\"bad\":%lld,\"w\":%lld}",
			    units(evbuffer_get_length(bufferevent_get_input(E[e].bev))),
			    units(evbuffer_get_length(bufferevent_get_output(E[e].bev))),
			    (int)bufferevent_get_enabled(E[e].bev), units(E[e].rd), E[e].bad, units(inq(e)));
		else if (!E[e].exists && conn_mode == 1)   /* the accepted end does not exist before connect */
			fprintf(out, "{\"il\":0,\"ol\":0,\"en\":4,\"rd\":0,\"bad\":0,\"w\":0}");
		else
			fprintf(out, "{\"il\":-1,\"ol\":-1,\"en\":-1,\"rd\":%lld,\"bad\":%lld,\"w\":0}", units(E[e].rd), E[e].bad);
	}
	fprintf(out, "],\"fc\":%d,\"rc\":%d}", free_ctx_calls, ref_cleanups);
}

static void quiet_log(int sev, const char *msg) { (void)sev; (void)msg; }

static void run_scenario(jval *sc)
{
	jval *cfg = j_get(sc, "cfg"), *h = j_get(sc, "h");
	const char *k = j_str(cfg, "kind", "pair"), *cm = j_str(cfg, "conn", "none");
	size_t i;
	int e;
	kind = !strcmp(k, "pair") ? 0 : !strcmp(k, "filt") ? 1 : 2;
	unit = (long)j_int(cfg, "unit", 1);
	tick_ns = j_int(cfg, "tick_ns", 1000);
	maxcb = (long)j_int(cfg, "maxcb", 8);
	defer_opt = (int)j_int(cfg, "defer", 0);
	use_tcp = (int)j_int(cfg, "tcp", 0);
	filtfn = j_str(cfg, "filtfn", "id");
	conn_mode = !strcmp(cm, "ok") ? 1 : !strcmp(cm, "refused") ? 2 : 0;
	vt_now_ns = BASE_NS; vt_enabled = 1; vt_wait_policy = NULL; vt_pre_wait = NULL;
	teardown = 0; listen_fd = -1; ncb = 0; free_ctx_calls = 0; basefreed = 0; ref_cleanups = 0;
	if (setup() < 0) { fprintf(out, "{\"obs\":[],\"err\":\"setup failed\"}\n"); return; }
	fprintf(out, "{\"obs\":[");
	for (i = 0; h && i < h->n; i++) {
		int r;
		cblen = 0; cblog[0] = 0;
		r = exec_op(h->items[i]);
		settle(h->items[i]);
		if (i) fputc(',', out);
		print_obs(r);
	}
	fprintf(out, "]}\n");
	teardown = 1;
	if (!basefreed && kind == 1 && E[3].alive) do_free(3);
	for (e = 1; e <= 2 && !basefreed; e++) if (E[e].exists && (E[e].alive || (kind == 1 && e == 1))) { E[e].alive = 1; do_free(e); }
	if (listen_fd >= 0) close(listen_fd);
	if (kind == 2) for (e = 1; e <= 2; e++) if (E[e].exists && E[e].fd >= 0) close(E[e].fd);
	for (e = 1; e <= 2; e++) if (base[e]) { event_base_loop(base[e], EVLOOP_NONBLOCK); event_base_free(base[e]); base[e] = NULL; }
}

int main(int argc, char **argv)
{
	char *line;
	out = stdout;
	event_set_log_callback(quiet_log);
	signal(SIGPIPE, SIG_IGN);
	while ((line = j_readline(stdin))) {
		if (line[0]) {
			jval *sc = j_parse(line);
			char *mbuf = NULL; size_t mlen = 0;
			out = open_memstream(&mbuf, &mlen);
			run_scenario(sc);
			fclose(out);
			fwrite(mbuf, 1, mlen, stdout);
			fflush(stdout);
			free(mbuf);
			j_free_all();
		}
		free(line);
	}
	return 0;
}
