/* C36: names that cannot be encoded as valid labels are transmitted as malformed queries.
 * dnsname_to_labels() happily emits a zero-length label for "ab..cd", ".ab", "." (the name then ends
 * early and QTYPE/QCLASS are read from the following label bytes), and only checks name_len > 255 on
 * the text, so 254/255-character names go out with a 256/257-byte wire name. */
#include <event2/event.h>
#include <event2/dns.h>
#include <sys/socket.h>
#include <netinet/in.h>
#include <stdio.h>
#include <string.h>
#include <unistd.h>

static void done(int err, char type, int count, int ttl, void *a, void *arg) { }
static void try(struct event_base *base, struct evdns_base *dns, int fd, const char *name)
{
	unsigned char b[600]; int n, i;
	struct evdns_request *r = evdns_base_resolve_ipv4(dns, name, DNS_QUERY_NO_SEARCH, done, NULL);
	for (i = 0; i < 3; i++) { event_base_loop(base, EVLOOP_NONBLOCK); usleep(1000); }
	n = recv(fd, b, sizeof b, MSG_DONTWAIT);
	printf("%-10.10s%s -> request %s, datagram:", name, strlen(name) > 10 ? "..." : "", r ? "accepted" : "refused");
	for (i = 12; i < n && i < 12 + 24; i++) printf(" %02x", b[i]);
	if (n > 36) printf(" ... (%d bytes, question name %d bytes on the wire)", n, n - 12 - 4);
	printf("\n");
	if (r) evdns_cancel_request(dns, r);
	event_base_loop(base, EVLOOP_NONBLOCK);
}
int main(void)
{
	struct event_base *base = event_base_new();
	struct evdns_base *dns = evdns_base_new(base, 0);
	struct sockaddr_in sin; socklen_t sl = sizeof sin;
	char longname[300]; int fd = socket(AF_INET, SOCK_DGRAM, 0), i;
	memset(&sin, 0, sizeof sin); sin.sin_family = AF_INET; sin.sin_addr.s_addr = htonl(0x7f000001);
	bind(fd, (struct sockaddr *)&sin, sizeof sin); getsockname(fd, (struct sockaddr *)&sin, &sl);
	evdns_base_nameserver_sockaddr_add(dns, (struct sockaddr *)&sin, sizeof sin, 0);
	evdns_base_set_option(dns, "randomize-case", "0");
	try(base, dns, fd, "ab.cd");      /* fine: 02 61 62 02 63 64 00 00 01 00 01 */
	try(base, dns, fd, "ab..cd");     /* 02 61 62 00 | 02 63 64 00 00 01 00 01  -> name "ab", QTYPE 0x0263 ... */
	try(base, dns, fd, ".ab");        /* 00 | 02 61 62 00 ...                   -> root name, garbage type */
	try(base, dns, fd, ".");          /* 00 00 00 01 00 01                      -> one byte too many */
	for (i = 0; i < 255; i++) longname[i] = (i % 64 == 63) ? '.' : 'x';
	longname[255] = 0;                /* 63.63.63.63: 255 characters = 257 bytes on the wire (limit 255) */
	try(base, dns, fd, longname);
	return 0;
}
