/* Standalone reproduction of the routing defects found by check C30.
 *   cc -I/verif/build/asan/include -I/repo/include repro.c -o repro -fsanitize=address \
 *      -L/verif/build/asan/lib -levent_extra -levent_core -lpthread
 *   ./repro nul | star
 */
#include <sys/socket.h>
#include <netinet/in.h>
#include <unistd.h>
#include <fcntl.h>
#include <stdio.h>
#include <string.h>
#include <event2/event.h>
#include <event2/http.h>
#include <event2/buffer.h>

static void cb(struct evhttp_request *req, void *arg)
{
	printf("  -> handled by %s (uri \"%s\")\n", (const char *)arg, evhttp_request_get_uri(req));
	evhttp_send_reply(req, 200, "OK", NULL);
}
static void ask(struct event_base *base, int port, const char *req)
{
	struct sockaddr_in sin; char buf[2048]; ssize_t r; int it, fd = socket(AF_INET, SOCK_STREAM, 0);
	memset(&sin, 0, sizeof(sin)); sin.sin_family = AF_INET; sin.sin_port = htons(port); sin.sin_addr.s_addr = htonl(INADDR_LOOPBACK);
	connect(fd, (struct sockaddr *)&sin, sizeof(sin));
	printf("request: %.*s\n", (int)(strchr(req, '\r') - req), req);
	if (strstr(req, "Host: ")) printf("         %.*s\n", (int)(strchr(strstr(req, "Host: "), '\r') - strstr(req, "Host: ")), strstr(req, "Host: "));
	write(fd, req, strlen(req)); fcntl(fd, F_SETFL, O_NONBLOCK);
	for (it = 0; it < 50; it++) {
		event_base_loop(base, EVLOOP_NONBLOCK);
		if ((r = read(fd, buf, sizeof(buf) - 1)) > 0) { buf[r] = 0; printf("  response: %.*s\n", (int)(strchr(buf, '\r') - buf), buf); break; }
		usleep(1000);
	}
	close(fd);
}
int main(int argc, char **argv)
{
	struct event_base *base = event_base_new();
	struct evhttp *http = evhttp_new(base), *vh = evhttp_new(base);
	struct evhttp_bound_socket *bs; struct sockaddr_in sin; socklen_t sl = sizeof(sin); int port;
	evhttp_set_cb(http, "/admin", cb, "the callback registered for /admin");
	evhttp_set_gencb(http, cb, "the general callback of the listening server");
	evhttp_set_gencb(vh, cb, "the virtual host registered with pattern \"www.*\"");
	evhttp_add_virtual_host(http, "www.*", vh);
	bs = evhttp_bind_socket_with_handle(http, "127.0.0.1", 0);
	getsockname(evhttp_bound_socket_get_fd(bs), (struct sockaddr *)&sin, &sl); port = ntohs(sin.sin_port);
	if (argc > 1 && !strcmp(argv[1], "star")) {
		printf("expected: the virtual host with pattern \"www.*\"\n");
		ask(base, port, "GET /x HTTP/1.1\r\nHost: www.example.com\r\n\r\n");
	} else {
		printf("expected: the general callback (the decoded path is the 8 octets \"/admin\\0x\", not \"/admin\")\n");
		ask(base, port, "GET /admin%00x HTTP/1.1\r\nHost: h\r\n\r\n");
		ask(base, port, "GET /adminx HTTP/1.1\r\nHost: h\r\n\r\n");
	}
	return 0;
}
