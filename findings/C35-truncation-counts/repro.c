/* C35: a truncated evdns server response keeps the full record counts.
 * evdns_server_request_format_response() cuts the buffer at max_udp_reply_size (in the middle of a
 * record) and sets TC, but ANCOUNT/NSCOUNT/ARCOUNT still announce every record the callback added. */
#include <event2/event.h>
#include <event2/dns.h>
#include <event2/dns_struct.h>
#include <sys/socket.h>
#include <netinet/in.h>
#include <stdio.h>
#include <string.h>
#include <unistd.h>

static void cb(struct evdns_server_request *req, void *arg)
{
	char data[100]; int i;
	memset(data, 'x', sizeof data);
	for (i = 0; i < 8; i++)
		evdns_server_request_add_reply(req, EVDNS_ANSWER_SECTION, "ab.cd", 16, 1, 60, sizeof data, 0, data);
	evdns_server_request_respond(req, 0);
}
int main(void)
{
	static const unsigned char q[] = {0x12,0x34,1,0,0,1,0,0,0,0,0,0,2,'a','b',2,'c','d',0,0,16,0,1};
	unsigned char r[4096];
	struct event_base *base = event_base_new();
	struct sockaddr_in sin; socklen_t sl = sizeof sin;
	int s = socket(AF_INET, SOCK_DGRAM, 0), c = socket(AF_INET, SOCK_DGRAM, 0), n, i, j, whole = 0;
	memset(&sin, 0, sizeof sin); sin.sin_family = AF_INET; sin.sin_addr.s_addr = htonl(0x7f000001);
	bind(s, (struct sockaddr *)&sin, sizeof sin); getsockname(s, (struct sockaddr *)&sin, &sl);
	evutil_make_socket_nonblocking(s);
	evdns_add_server_port_with_base(base, s, 0, cb, NULL);
	connect(c, (struct sockaddr *)&sin, sizeof sin);
	send(c, q, sizeof q, 0);
	for (i = 0; i < 5; i++) { event_base_loop(base, EVLOOP_NONBLOCK); usleep(1000); }
	n = recv(c, r, sizeof r, MSG_DONTWAIT);
	printf("response: %d bytes, TC=%d, ANCOUNT=%d\n", n, (r[2] >> 1) & 1, r[6] * 256 + r[7]);
	j = 12 + 7 + 4;                           /* header + question */
	while (j + 12 <= n) {                     /* owner is a 2-byte pointer in every answer */
		int rdlen = r[j + 10] * 256 + r[j + 11];
		if (j + 12 + rdlen > n) break;
		whole++; j += 12 + rdlen;
	}
	printf("complete answer records present: %d (bytes left over: %d)\n", whole, n - j);
	return 0;
}
