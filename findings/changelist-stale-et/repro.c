/* epoll changelist: the EPOLLET flag of a pending *delete* leaks into the
 * registration of a level-triggered event added for another condition of the
 * same fd before the next dispatch.
 *
 *   ev1 = EV_READ|EV_ET|EV_PERSIST on fd   add, dispatch      (kernel: IN|ET)
 *   event_del(ev1)                          changelist: read_change = DEL|ET
 *   ev2 = EV_WRITE|EV_PERSIST on fd         changelist: write_change = ADD
 *   dispatch: epoll_apply_one_change ors the ET bits of all three change bytes
 *             -> EPOLL_CTL_MOD(EPOLLOUT|EPOLLET)
 * The level-triggered write event is registered edge-triggered: it fires once
 * and never again although the socket stays writable.
 * Without the changelist (or with a dispatch between del and add) it is
 * registered level-triggered and fires in every iteration.
 */
#include <event2/event.h>
#include <event2/event_struct.h>
#include <stdio.h>
#include <string.h>
#include <sys/socket.h>
#include <unistd.h>

static int nfired;
static void cb(evutil_socket_t fd, short what, void *arg) { (void)fd; (void)what; (void)arg; nfired++; }

static unsigned reg_of(int tfd)
{
	char path[64], line[256]; unsigned res = 0;
	for (int fd = 0; fd < 64; fd++) {
		char lnk[128]; ssize_t n;
		snprintf(path, sizeof(path), "/proc/self/fd/%d", fd);
		n = readlink(path, lnk, sizeof(lnk) - 1);
		if (n <= 0) continue;
		lnk[n] = 0;
		if (!strstr(lnk, "eventpoll")) continue;
		snprintf(path, sizeof(path), "/proc/self/fdinfo/%d", fd);
		FILE *f = fopen(path, "r");
		while (f && fgets(line, sizeof(line), f)) {
			int t; unsigned ev;
			if (sscanf(line, "tfd: %d events: %x", &t, &ev) == 2 && t == tfd) res = ev;
		}
		if (f) fclose(f);
	}
	return res;
}

static int run(int changelist)
{
	struct event_config *cfg = event_config_new();
	struct event_base *base;
	struct event ev1, ev2;
	int sp[2], fired[3];
	unsigned reg;
	event_config_require_features(cfg, EV_FEATURE_ET);
	event_config_set_flag(cfg, EVENT_BASE_FLAG_IGNORE_ENV | (changelist ? EVENT_BASE_FLAG_EPOLL_USE_CHANGELIST : 0));
	base = event_base_new_with_config(cfg);
	event_config_free(cfg);
	socketpair(AF_UNIX, SOCK_STREAM, 0, sp);
	event_assign(&ev1, base, sp[0], EV_READ | EV_ET | EV_PERSIST, cb, NULL);
	event_add(&ev1, NULL);
	event_base_loop(base, EVLOOP_ONCE | EVLOOP_NONBLOCK);
	event_del(&ev1);
	event_assign(&ev2, base, sp[0], EV_WRITE | EV_PERSIST, cb, NULL);   /* level-triggered */
	event_add(&ev2, NULL);
	for (int i = 0; i < 3; i++) { nfired = 0; event_base_loop(base, EVLOOP_ONCE | EVLOOP_NONBLOCK); fired[i] = nfired; }
	reg = reg_of(sp[0]);
	printf("%-22s kernel registration 0x%08x EPOLLET=%d; LT write event fired per iteration: %d %d %d\n",
	    event_base_get_method(base), reg, !!(reg & 0x80000000u), fired[0], fired[1], fired[2]);
	event_del(&ev2);
	event_base_free(base);
	close(sp[0]); close(sp[1]);
	return (reg & 0x80000000u) || fired[1] != 1 || fired[2] != 1;
}

int main(void)
{
	int bad0 = run(0), bad1 = run(1);
	printf("%s\n", bad1 && !bad0 ? "DEFECT REPRODUCED (changelist only)" : bad0 || bad1 ? "unexpected" : "not reproduced");
	return bad1 ? 1 : 0;
}
