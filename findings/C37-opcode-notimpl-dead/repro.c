/* C37: request_parse() does `flags &= (_RD_MASK|_CD_MASK)` before `if (flags & _OP_MASK)`, so the
 * NOTIMPL branch is dead: requests with a non-standard opcode (here 5 = UPDATE) reach the user
 * callback as if they were standard queries and get a normal answer.
 * With "tail" as argument the program instead sends a standard query whose answer-section record
 * announces RDLENGTH 9 with only 3 bytes left in the packet: the callback is invoked as well
 * (request_parse never checks that the records it skips lie inside the packet). */
#include <event2/event.h>
#include <event2/dns.h>
#include <event2/dns_struct.h>
#include <sys/socket.h>
#include <netinet/in.h>
#include <stdio.h>
#include <string.h>
#include <unistd.h>

static void cb(struct evdns_server_request *req, void *arg)
{
	printf("user callback invoked: %d question(s), first = %s type %d\n", req->nquestions,
	    req->nquestions ? req->questions[0]->name : "-", req->nquestions ? req->questions[0]->type : 0);
	evdns_server_request_add_a_reply(req, "ab.cd", 1, "\1\2\3\4", 60);
	evdns_server_request_respond(req, 0);
}
int main(int argc, char **argv)
{
	static const unsigned char upd[] = {0x12,0x34,0x28,0,0,1,0,0,0,0,0,0,2,'a','b',2,'c','d',0,0,1,0,1};
	static const unsigned char tail[] = {0x12,0x34,1,0,0,1,0,1,0,0,0,0,2,'a','b',2,'c','d',0,0,1,0,1,
	                                     0xc0,12,0,16,0,1,0,0,0,5,0,9,1,2,3};
	int use_tail = argc > 1 && !strcmp(argv[1], "tail");
	unsigned char r[512];
	struct event_base *base = event_base_new();
	struct sockaddr_in sin; socklen_t sl = sizeof sin;
	int s = socket(AF_INET, SOCK_DGRAM, 0), c = socket(AF_INET, SOCK_DGRAM, 0), n, i;
	memset(&sin, 0, sizeof sin); sin.sin_family = AF_INET; sin.sin_addr.s_addr = htonl(0x7f000001);
	bind(s, (struct sockaddr *)&sin, sizeof sin); getsockname(s, (struct sockaddr *)&sin, &sl);
	evutil_make_socket_nonblocking(s);
	evdns_add_server_port_with_base(base, s, 0, cb, NULL);
	connect(c, (struct sockaddr *)&sin, sizeof sin);
	if (use_tail) { printf("sending a query whose last record is cut short (RDLENGTH 9, 3 bytes present)\n"); send(c, tail, sizeof tail, 0); }
	else { printf("sending opcode 5 (UPDATE) request\n"); send(c, upd, sizeof upd, 0); }
	for (i = 0; i < 5; i++) { event_base_loop(base, EVLOOP_NONBLOCK); usleep(1000); }
	n = recv(c, r, sizeof r, MSG_DONTWAIT);
	if (n >= 12) printf("response: %d bytes, opcode %d, RCODE %d, ANCOUNT %d\n", n, (r[2] >> 3) & 15, r[3] & 15, r[6] * 256 + r[7]);
	else printf("no response\n");
	return 0;
}
