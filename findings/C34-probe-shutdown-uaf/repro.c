/* C34: evdns_base_free(base, 1) while a nameserver probe is in flight -> heap-use-after-free.
 * evdns_base_free_and_unlock() schedules a DNS_ERR_SHUTDOWN callback for every request -- including the internal
 * probe request of a failed nameserver -- and then frees the nameservers.  The deferred callback
 * nameserver_probe_callback(arg = ns) runs afterwards and dereferences the freed nameserver (evdns.c:3040). */
#include <event2/event.h>
#include <event2/dns.h>
#include <sys/socket.h>
#include <netinet/in.h>
#include <stdio.h>
#include <string.h>
#include <unistd.h>

static int reported;
static void done(int err, char type, int count, int ttl, void *a, void *arg) { reported = 1; printf("user request reported err=%d\n", err); }
int main(void)
{
	struct event_base *base = event_base_new();
	struct evdns_base *dns = evdns_base_new(base, 0);
	struct sockaddr_in sin; socklen_t sl = sizeof sin;
	unsigned char b[512];
	int fd = socket(AF_INET, SOCK_DGRAM, 0), i, probes = 0;              /* a nameserver that never answers */
	memset(&sin, 0, sizeof sin); sin.sin_family = AF_INET; sin.sin_addr.s_addr = htonl(0x7f000001);
	bind(fd, (struct sockaddr *)&sin, sizeof sin); getsockname(fd, (struct sockaddr *)&sin, &sl);
	evdns_base_nameserver_sockaddr_add(dns, (struct sockaddr *)&sin, sizeof sin, 0);
	evdns_base_set_option(dns, "timeout", "0.1"); evdns_base_set_option(dns, "attempts", "1");
	evdns_base_set_option(dns, "initial-probe-timeout", "0.1");
	evdns_base_resolve_ipv4(dns, "x.test", DNS_QUERY_NO_SEARCH, done, NULL);
	for (i = 0; i < 400 && probes == 0; i++) {                             /* wait until the probe (google.com) is on the wire */
		event_base_loop(base, EVLOOP_NONBLOCK); usleep(2000);
		while (recv(fd, b, sizeof b, MSG_DONTWAIT) > 12) if (reported) probes++;
	}
	printf("probe in flight: %d; calling evdns_base_free(dns, 1)\n", probes);
	evdns_base_free(dns, 1);
	event_base_loop(base, EVLOOP_NONBLOCK);                                /* runs the deferred SHUTDOWN callbacks */
	printf("survived\n");
	return 0;
}
