/* evbuffer_reserve_space(buf, 0, vec, n >= 2) on a buffer whose last chain has no free space
 * (e.g. right after evbuffer_prepend into an empty buffer): evbuffer_expand_fast_ returns at once
 * (0 >= 0 bytes available), evbuffer_read_setup_vecs_ then steps past the full chain to a NULL
 * chain and EVUTIL_ASSERT(chain) aborts (buffer.c:2268) in builds without NDEBUG. */
#include <event2/buffer.h>
#include <stdio.h>
int main(void)
{
	struct evbuffer *b = evbuffer_new();
	struct evbuffer_iovec v[2];
	evbuffer_prepend(b, "x", 1);               /* chain: misalign = buffer_len - 1, off = 1: no space left */
	int n = evbuffer_reserve_space(b, 0, v, 2);
	printf("n=%d\n", n);
	evbuffer_free(b);
	return 0;
}
