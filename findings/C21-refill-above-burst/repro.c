/* C21: ev_token_bucket_update_ is not "min(burst, level + ticks*rate)" when the
 * level is above the burst.  A level above the burst is reachable through the
 * documented public API: bufferevent_decrement_read_limit() "can be negative,
 * if you want to manually refill the bucket" (include/event2/bufferevent.h).
 *
 * In ev_token_bucket_update_ the guard
 *     (cfg->read_maximum - bucket->read_limit) / n_ticks < cfg->read_rate
 * is evaluated in size_t; with read_limit > read_maximum the subtraction wraps
 * to a huge value, the guard is false and the "else" branch adds n_ticks*rate
 * on top of a bucket that is already over its maximum.  The bucket then grows
 * by `rate` every tick without bound (part 1) and finally wraps around to a
 * huge negative level (part 2), which suspends the bufferevent.
 */
#include <event2/event.h>
#include <event2/bufferevent.h>
#include <stdio.h>
#include <unistd.h>
#include <stdint.h>

int main(void)
{
	struct event_base *base = event_base_new();
	struct bufferevent *pair[2];
	struct timeval tick = { 0, 100 * 1000 };	/* 100 ms */
	int bad = 0;
	bufferevent_pair_new(base, 0, pair);

	/* part 1: rate = burst = 1000 bytes/tick */
	struct ev_token_bucket_cfg *cfg = ev_token_bucket_cfg_new(1000, 1000, 1000, 1000, &tick);
	bufferevent_set_rate_limit(pair[0], cfg);
	printf("level after set_rate_limit           : %lld\n", (long long)bufferevent_get_read_limit(pair[0]));
	bufferevent_decrement_read_limit(pair[0], -5000);	/* documented manual refill */
	long long before = bufferevent_get_read_limit(pair[0]);
	printf("level after manual refill of 5000    : %lld\n", before);
	usleep(350 * 1000);					/* 3 ticks */
	long long after = bufferevent_get_read_limit(pair[0]);
	printf("level >= 3 ticks later               : %lld   (burst is 1000; min(burst, level+n*rate) = 1000)\n", after);
	if (after > before) { printf("  -> DEFECT: a bucket above its burst keeps growing by rate per tick\n"); bad = 1; }
	bufferevent_set_rate_limit(pair[0], NULL);

	/* part 2: wrap-around with a large (accepted) configuration */
	size_t big = (size_t)1 << 62;
	struct ev_token_bucket_cfg *cfg2 = ev_token_bucket_cfg_new(big, big, big, big, &tick);
	bufferevent_set_rate_limit(pair[1], cfg2);
	bufferevent_decrement_write_limit(pair[1], -1);		/* level = 2^62 + 1 */
	printf("big: level after manual refill of 1  : %lld\n", (long long)bufferevent_get_write_limit(pair[1]));
	usleep(150 * 1000);					/* 1 tick */
	long long w = bufferevent_get_write_limit(pair[1]);
	printf("big: level 1 tick later              : %lld   (burst is %llu)\n", w, (unsigned long long)big);
	if (w < 0) { printf("  -> DEFECT: level + ticks*rate overflowed the 64-bit level\n"); bad = 1; }

	bufferevent_free(pair[0]); bufferevent_free(pair[1]);
	ev_token_bucket_cfg_free(cfg); ev_token_bucket_cfg_free(cfg2);
	event_base_free(base);
	return bad;
}
