/* evrpc: a request that is aborted by a client output hook (EVRPC_TERMINATE) leaves the
 * requests queued behind it on the pool unscheduled, although the pool's connection is idle.
 *
 * evrpc_schedule_request()'s error path (evrpc.c, label "error": status UNSTARTED) invokes the
 * completion callback and returns without calling evrpc_pool_schedule(), and its caller
 * evrpc_pool_schedule() only ever tries the first queued request.  A request queued behind the
 * aborted one therefore never gets its completion callback (and no timeout is armed for it: the
 * pool timeout is only armed when a request is scheduled) until some unrelated later call or
 * completion happens to run the scheduler again.
 *
 * Expected (C43: "every evrpc request made through a pool has its completion callback invoked
 * exactly once"): call 3 completes.  Observed: completions = 1 1 0 even after 40 s of idle time.
 */
#include <event2/event.h>
#include <event2/event_compat.h>
#include <event2/http.h>
#include <event2/rpc.h>
#include <event2/rpc_struct.h>
#include <stdio.h>
#include <string.h>
#include <sys/socket.h>
#include <netinet/in.h>
#include "evrpc-internal.h"
#include "regress.gen.h"

EVRPC_HEADER(Message, msg, kill)
EVRPC_HEADER(NeverReply, msg, kill)
EVRPC_GENERATE(Message, msg, kill)
EVRPC_GENERATE(NeverReply, msg, kill)

static int comp[4], abort_call = 2;
static EVRPC_STRUCT(NeverReply) *saved;

static void MessageCb(EVRPC_STRUCT(Message) *rpc, void *arg)
{
	EVTAG_ASSIGN(rpc->reply, weapon, "w"); EVTAG_ASSIGN(rpc->reply, action, "a");
	EVRPC_REQUEST_DONE(rpc);
}
static void NeverReplyCb(EVRPC_STRUCT(NeverReply) *rpc, void *arg) { saved = rpc; }
static void done(struct evrpc_status *st, struct msg *m, struct kill *k, void *arg)
{
	int c = (int)(intptr_t)arg;
	comp[c]++;
	printf("completion callback: call %d status %d\n", c, st->error);
}
static int out_hook(void *ctx, struct evhttp_request *req, struct evbuffer *b, void *arg)
{
	int c = (int)(intptr_t)((struct evrpc_request_wrapper *)ctx)->cb_arg;
	return c == abort_call ? EVRPC_TERMINATE : EVRPC_CONTINUE;
}
static struct msg *mk(void) { struct msg *m = msg_new(); EVTAG_ASSIGN(m, from_name, "f"); EVTAG_ASSIGN(m, to_name, "t"); return m; }
static void spin(struct event_base *b, int secs)
{
	struct timeval tv = { secs, 0 };
	event_base_loopexit(b, &tv);
	event_base_dispatch(b);
}

int main(void)
{
	struct event_base *base = event_init();
	struct evhttp *http = evhttp_new(base);
	struct evhttp_bound_socket *bs = evhttp_bind_socket_with_handle(http, "127.0.0.1", 0);
	struct sockaddr_in sin; socklen_t sl = sizeof sin;
	struct evrpc_base *rb = evrpc_init(http);
	struct evrpc_pool *pool = evrpc_pool_new(base);
	struct msg *m1 = mk(), *m2 = mk(), *m3 = mk();
	struct kill *k1 = kill_new(), *k2 = kill_new(), *k3 = kill_new();

	getsockname(evhttp_bound_socket_get_fd(bs), (struct sockaddr *)&sin, &sl);
	EVRPC_REGISTER(rb, Message, msg, kill, MessageCb, NULL);
	EVRPC_REGISTER(rb, NeverReply, msg, kill, NeverReplyCb, NULL);
	evrpc_pool_add_connection(pool, evhttp_connection_base_new(NULL, NULL, "127.0.0.1", ntohs(sin.sin_port)));
	evrpc_add_hook(pool, EVRPC_OUTPUT, out_hook, NULL);

	evrpc_send_request_NeverReply(pool, m1, k1, done, (void *)1); /* occupies the only connection */
	evrpc_send_request_Message(pool, m2, k2, done, (void *)2);    /* queued; its output hook will abort it */
	evrpc_send_request_Message(pool, m3, k3, done, (void *)3);    /* queued behind it */
	spin(base, 1);
	printf("server answers call 1 now\n");
	EVTAG_ASSIGN(saved->reply, weapon, "w"); EVTAG_ASSIGN(saved->reply, action, "a");
	EVRPC_REQUEST_DONE(saved);
	spin(base, 3);                                             /* plenty of idle time */
	printf("completions: call1=%d call2=%d call3=%d\n", comp[1], comp[2], comp[3]);
	if (comp[3] == 0) { printf("DEFECT: call 3 is still queued on an idle pool; its completion callback never ran\n"); return 1; }
	return 0;
}
