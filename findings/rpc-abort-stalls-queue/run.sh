#!/bin/sh
# Build and run the repro against the ASan build of /repo made by /verif/kit/build.sh.
set -e
HERE=$(cd "$(dirname "$0")" && pwd)
REPO=${VERIF_REPO:-/repo}
B=$(/verif/kit/build.sh asan | tail -1)
W=/verif/out/tmp/rpc_repro_$$; mkdir -p $W
cp $REPO/test/regress.rpc $W/ && (cd $W && python3 $REPO/event_rpcgen.py --quiet regress.rpc)
cc -g -O1 -fsanitize=address -I $B/include -I $REPO/include -I $REPO -I $REPO/compat -I $W \
   $HERE/repro.c $W/regress.gen.c -o $W/repro -L $B/lib -levent_extra -levent_core -lpthread
rc=0; ASAN_OPTIONS=detect_leaks=0 $W/repro || rc=$?
rm -rf $W
exit $rc
