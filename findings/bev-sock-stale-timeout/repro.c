/* C20: a socket bufferevent reports BEV_EVENT_TIMEOUT|READING although its read timeout was removed.
 * bufferevent_set_timeouts(NULL, NULL) only touches events that are currently added
 * (bufferevent_generic_adj_existing_timeouts_), so when reading is disabled at that moment the
 * event keeps its ev_io_timeout; after re-enabling, the first I/O activation re-arms it
 * (event_persist_closure). */
#include <event2/event.h>
#include <event2/bufferevent.h>
#include <sys/socket.h>
#include <unistd.h>
#include <stdio.h>

static int tmo;
static void rcb(struct bufferevent *b, void *arg) { printf("read callback\n"); }
static void ecb(struct bufferevent *b, short what, void *arg)
{
	printf("event callback 0x%x%s\n", what, (what & BEV_EVENT_TIMEOUT) ? " (TIMEOUT)" : "");
	if (what & BEV_EVENT_TIMEOUT) tmo = 1;
}
int main(void)
{
	struct event_base *base = event_base_new();
	struct timeval tv = {0, 50000}, wait = {0, 300000};
	struct bufferevent *bev;
	int sv[2];
	socketpair(AF_UNIX, SOCK_STREAM, 0, sv);
	evutil_make_socket_nonblocking(sv[0]);
	bev = bufferevent_socket_new(base, sv[0], 0);
	bufferevent_setcb(bev, rcb, NULL, ecb, NULL);
	bufferevent_set_timeouts(bev, &tv, NULL);     /* 50 ms read timeout */
	bufferevent_enable(bev, EV_READ);
	bufferevent_disable(bev, EV_READ);
	bufferevent_set_timeouts(bev, NULL, NULL);    /* ... removed again while reading is disabled */
	bufferevent_enable(bev, EV_READ);
	write(sv[1], "x", 1);                         /* one byte arrives, then silence */
	event_base_loopexit(base, &wait);
	event_base_dispatch(base);
	printf("%s\n", tmo ? "DEFECT: read timeout fired although no timeout is configured" : "ok");
	return tmo;
}
