/* C17: a finishing flush on a bufferevent pair reports EOF to the partner while bytes written
 * before the shutdown are still undelivered (they arrive AFTER the EOF).
 * be_pair_transfer(ignore_wm=1) moves only `wm_read.high - len(input)` bytes when the reader
 * is below its high watermark, but be_pair_flush(BEV_FINISHED) raises BEV_EVENT_EOF regardless. */
#include <event2/event.h>
#include <event2/buffer.h>
#include <event2/bufferevent.h>
#include <stdio.h>
#include <string.h>

static int got_eof, read_after_eof, total;
static void rcb(struct bufferevent *b, void *arg)
{
	char buf[16];
	size_t n = bufferevent_read(b, buf, sizeof buf);
	total += (int)n;
	printf("read callback: %zu byte(s)%s\n", n, got_eof ? "   <-- after EOF" : "");
	if (got_eof) read_after_eof += (int)n;
}
static void ecb(struct bufferevent *b, short what, void *arg)
{
	struct bufferevent *peer = arg;
	printf("event callback: 0x%x%s, writer's output still holds %zu byte(s)\n", what,
	    (what & BEV_EVENT_EOF) ? " (EOF)" : "", evbuffer_get_length(bufferevent_get_output(peer)));
	if (what & BEV_EVENT_EOF) got_eof = 1;
}
int main(void)
{
	struct event_base *base = event_base_new();
	struct bufferevent *p[2];
	bufferevent_pair_new(base, 0, p);
	bufferevent_setcb(p[1], rcb, NULL, ecb, p[0]);
	bufferevent_setwatermark(p[1], EV_READ, 0, 1);          /* reader: high watermark 1, not reading yet */
	bufferevent_write(p[0], "abc", 3);                        /* stays in the writer's output */
	bufferevent_flush(p[0], EV_WRITE, BEV_FINISHED);          /* "I am done": moves 1 byte, raises EOF */
	event_base_loop(base, EVLOOP_NONBLOCK);                   /* reader: read callback (1 byte), then EOF */
	bufferevent_enable(p[1], EV_READ);                        /* the remaining 2 bytes trickle in after EOF */
	event_base_loop(base, EVLOOP_NONBLOCK);
	printf("total read %d of 3, %d byte(s) were delivered after EOF -> %s\n", total, read_after_eof,
	    read_after_eof || total < 3 ? "DEFECT" : "ok");
	return read_after_eof || total < 3;
}
