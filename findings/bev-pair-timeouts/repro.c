/* C20 on bufferevent pairs.
 *   ./repro rt : a READ timeout fires on an endpoint whose reading was never enabled
 *                (be_pair_transfer re-arms the reader's timer unconditionally; here via a flush)
 *   ./repro wt : a WRITE timeout never fires although the writer is enabled, has pending output
 *                and nothing is transferred (bufferevent_write does not start the timer) */
#include <event2/event.h>
#include <event2/buffer.h>
#include <event2/bufferevent.h>
#include <stdio.h>
#include <string.h>

static int tmo_r, tmo_w;
static void ecb(struct bufferevent *b, short what, void *arg)
{
	printf("event callback on %s: 0x%x, enabled now 0x%x\n", (char *)arg, what, bufferevent_get_enabled(b));
	if ((what & BEV_EVENT_TIMEOUT) && (what & BEV_EVENT_READING)) tmo_r++;
	if ((what & BEV_EVENT_TIMEOUT) && (what & BEV_EVENT_WRITING)) tmo_w++;
}
int main(int argc, char **argv)
{
	struct event_base *base = event_base_new();
	struct bufferevent *p[2];
	struct timeval tv = {0, 50000}, wait = {0, 200000};
	int rt = argc > 1 && !strcmp(argv[1], "rt");
	bufferevent_pair_new(base, 0, p);
	bufferevent_setcb(p[0], NULL, NULL, ecb, "A");
	bufferevent_setcb(p[1], NULL, NULL, ecb, "B");
	if (rt) {
		bufferevent_set_timeouts(p[1], &tv, NULL);       /* B: read timeout, but B never enables EV_READ */
		bufferevent_write(p[0], "x", 1);
		bufferevent_flush(p[0], EV_WRITE, BEV_FLUSH);     /* pushes the byte into B's input */
		printf("B enabled = 0x%x (EV_READ is 0x2)\n", bufferevent_get_enabled(p[1]));
	} else {
		bufferevent_set_timeouts(p[0], NULL, &tv);       /* A: write timeout; A is write-enabled by default */
		bufferevent_write(p[0], "x", 1);                 /* B does not read: the byte stays pending */
		printf("A enabled = 0x%x, pending output %zu\n", bufferevent_get_enabled(p[0]),
		    evbuffer_get_length(bufferevent_get_output(p[0])));
	}
	event_base_loopexit(base, &wait);
	event_base_dispatch(base);
	if (rt) { printf("%s\n", tmo_r ? "DEFECT: read timeout fired while reading is disabled" : "ok"); return tmo_r != 0; }
	printf("%s\n", tmo_w ? "ok" : "DEFECT: no write timeout after 4 intervals of pending, untransferred output");
	return tmo_w == 0;
}
