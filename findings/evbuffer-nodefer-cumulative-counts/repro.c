/* A NODEFER callback on a buffer with deferred callbacks is told cumulative counts:
 * evbuffer_run_callbacks(buffer, 0) with deferred_cbs set uses clear = 0 (buffer.c:482), so
 * n_add_for_cb / n_del_for_cb keep growing until the deferred run; every immediate (NODEFER)
 * invocation reports everything since the last deferred run again. */
#include <event2/event.h>
#include <event2/buffer.h>
#include <stdio.h>
#define EVBUFFER_CB_NODEFER 2   /* evbuffer-internal.h */
static size_t sum_added;
static void cb(struct evbuffer *b, const struct evbuffer_cb_info *i, void *arg)
{
	sum_added += i->n_added;
	printf("cb: orig=%zu added=%zu deleted=%zu (len now %zu)\n", i->orig_size, i->n_added, i->n_deleted, evbuffer_get_length(b));
}
int main(void)
{
	struct event_base *base = event_base_new();
	struct evbuffer *b = evbuffer_new();
	struct evbuffer_cb_entry *e;
	evbuffer_defer_callbacks(b, base);
	e = evbuffer_add_cb(b, cb, NULL);
	evbuffer_cb_set_flags(b, e, EVBUFFER_CB_NODEFER);
	evbuffer_add(b, "12345", 5);
	evbuffer_add(b, "678", 3);
	printf("bytes added: 8, sum of n_added reported: %zu\n", sum_added);
	event_base_loop(base, EVLOOP_NONBLOCK);
	evbuffer_free(b); event_base_free(base);
	return 0;
}
