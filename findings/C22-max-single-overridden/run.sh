#!/bin/sh
# Build and run the repro against the current working tree of /repo (ASan static build of the kit).
set -e
cd "$(dirname "$0")"
B=$(../../kit/build.sh asan | tail -1)
cc -g -fsanitize=address -I "$B/include" -I ${VERIF_REPO:-/repo}/include repro.c -o ../../out/C22_repro \
   -L "$B/lib" -levent_core -lpthread
ASAN_OPTIONS=detect_leaks=0 ../../out/C22_repro
