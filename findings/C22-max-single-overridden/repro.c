/* C22: "per-operation maxima are respected" - bufferevent_get_rlim_max_ ASSIGNS the
 * bucket level to max_so_far when a per-bufferevent rate-limit cfg exists
 *     max_so_far = LIM(bev->rate_limiting->limit);
 * instead of clamping (CLAMPTO), so max_single_read/max_single_write are discarded
 * as soon as bufferevent_set_rate_limit() is used.
 *  part 1: public query: bufferevent_get_max_to_read() is 100 without the cfg and 50000 with it.
 *  part 2: on the wire: with max_single_write = 100 one write operation moves 50000 bytes.
 */
#include <event2/event.h>
#include <event2/bufferevent.h>
#include <event2/buffer.h>
#include <sys/socket.h>
#include <stdio.h>
#include <string.h>
#include <unistd.h>

static size_t biggest;
static void out_cb(struct evbuffer *b, const struct evbuffer_cb_info *info, void *arg)
{
	(void)b; (void)arg;
	if (info->n_deleted > biggest) biggest = info->n_deleted;	/* bytes removed by one write operation */
}

int main(void)
{
	struct event_base *base = event_base_new();
	int sv[2], bad = 0;
	static char data[200000];
	socketpair(AF_UNIX, SOCK_STREAM, 0, sv);
	evutil_make_socket_nonblocking(sv[0]); evutil_make_socket_nonblocking(sv[1]);
	struct bufferevent *bev = bufferevent_socket_new(base, sv[0], BEV_OPT_CLOSE_ON_FREE);
	struct ev_token_bucket_cfg *cfg = ev_token_bucket_cfg_new(50000, 50000, 50000, 50000, NULL);

	bufferevent_set_max_single_read(bev, 100);
	bufferevent_set_max_single_write(bev, 100);
	printf("max_single_read = %ld, max_single_write = %ld\n", (long)bufferevent_get_max_single_read(bev), (long)bufferevent_get_max_single_write(bev));
	printf("without cfg: max_to_read = %ld  max_to_write = %ld\n", (long)bufferevent_get_max_to_read(bev), (long)bufferevent_get_max_to_write(bev));
	bufferevent_set_rate_limit(bev, cfg);
	long r = (long)bufferevent_get_max_to_read(bev), w = (long)bufferevent_get_max_to_write(bev);
	printf("with cfg 50000/50000: max_to_read = %ld  max_to_write = %ld   (expected min(100, 50000) = 100)\n", r, w);
	if (r > 100 || w > 100) { printf("  -> DEFECT: max_single_* discarded by the per-bufferevent rate limit\n"); bad = 1; }

	evbuffer_add_cb(bufferevent_get_output(bev), out_cb, NULL);
	bufferevent_write(bev, data, sizeof(data));
	bufferevent_enable(bev, EV_WRITE);
	event_base_loop(base, EVLOOP_NONBLOCK);
	printf("largest single write operation: %zu bytes (max_single_write = 100)\n", biggest);
	if (biggest > 100) { printf("  -> DEFECT: one write moved more than max_single_write\n"); bad = 1; }
	bufferevent_free(bev); close(sv[1]);
	ev_token_bucket_cfg_free(cfg);
	event_base_free(base);
	return bad;
}
