/* C19: on a socket bufferevent (callbacks not deferred) the read callback can run before
 * BEV_EVENT_CONNECTED: bufferevent_readcb does not look at `connecting`, and the read event,
 * added after the write event, is dispatched first when one poll reports both. */
#include <event2/event.h>
#include <event2/buffer.h>
#include <event2/bufferevent.h>
#include <sys/socket.h>
#include <netinet/in.h>
#include <unistd.h>
#include <stdio.h>
#include <string.h>

static int connected, bad;
static void rcb(struct bufferevent *b, void *arg)
{
	printf("read callback (%zu bytes buffered), CONNECTED %s\n", evbuffer_get_length(bufferevent_get_input(b)),
	    connected ? "already reported" : "NOT yet reported  <-- defect");
	if (!connected) bad = 1;
}
static void ecb(struct bufferevent *b, short what, void *arg)
{
	printf("event callback 0x%x%s\n", what, (what & BEV_EVENT_CONNECTED) ? " (CONNECTED)" : "");
	if (what & BEV_EVENT_CONNECTED) connected = 1;
}
int main(void)
{
	struct event_base *base = event_base_new();
	struct sockaddr_in a; socklen_t al = sizeof a;
	int l = socket(AF_INET, SOCK_STREAM, 0), s;
	struct bufferevent *bev;
	memset(&a, 0, sizeof a); a.sin_family = AF_INET; a.sin_addr.s_addr = htonl(INADDR_LOOPBACK);
	bind(l, (struct sockaddr *)&a, sizeof a); listen(l, 1); getsockname(l, (struct sockaddr *)&a, &al);
	bev = bufferevent_socket_new(base, -1, BEV_OPT_CLOSE_ON_FREE);
	bufferevent_setcb(bev, rcb, NULL, ecb, NULL);
	bufferevent_socket_connect(bev, (struct sockaddr *)&a, sizeof a);
	bufferevent_enable(bev, EV_READ);
	s = accept(l, NULL, NULL);                 /* the server greets at once (SMTP/SSH style) */
	write(s, "220 hi\r\n", 8);
	usleep(20000);
	event_base_loop(base, EVLOOP_NONBLOCK);
	printf("%s\n", bad ? "DEFECT: read callback ran before BEV_EVENT_CONNECTED" : "ok");
	return bad;
}
