/* Standalone reproduction of the HTTP response framing defects found by check C24.
 * An evhttp_connection sends GET /r0 (and GET /r1) to a raw socket in this process that
 * answers with a fixed octet string; the completion callbacks are printed.
 *
 *   cc -I/verif/build/asan/include -I/repo/include repro.c -o repro -fsanitize=address \
 *      -L/verif/build/asan/lib -levent_extra -levent_core -lpthread
 *   ./repro <case>   (cases: keepalive-no-length te-gzip-chunked cl-plus cl-conflict chunk-ext interim-headers)
 */
#include <sys/socket.h>
#include <netinet/in.h>
#include <unistd.h>
#include <fcntl.h>
#include <stdio.h>
#include <string.h>
#include <stdint.h>
#include <sys/queue.h>
#include <event2/event.h>
#include <event2/http.h>
#include <event2/buffer.h>
#include <event2/keyvalq_struct.h>

static const struct { const char *name, *stream, *expect; int nreq; } cases[] = {
	{"keepalive-no-length", "HTTP/1.1 200 OK\r\nConnection: keep-alive\r\n\r\nHTTP/1.1 200 OK\r\nContent-Length: 4\r\n\r\nEVIL", 
	 "RFC 9112 6.3 rule 8: no Content-Length / Transfer-Encoding => body is everything until the close; request 1 gets no response", 2},
	{"te-gzip-chunked", "HTTP/1.1 200 OK\r\nTransfer-Encoding: gzip, chunked\r\n\r\n3\r\nabc\r\n0\r\n\r\n",
	 "RFC 9112 6.3 rule 4: final coding chunked => chunked framing (complete after the last chunk), or fail", 1},
	{"cl-plus", "HTTP/1.1 200 OK\r\nContent-Length: +3\r\n\r\nabc",
	 "RFC 9112 6.3 rule 5: invalid Content-Length in a response: the user agent MUST close and discard the response", 1},
	{"cl-conflict", "HTTP/1.1 200 OK\r\nContent-Length: 0\r\nContent-Length: 26\r\n\r\nHTTP/1.1 200 OK\r\n\r\nEVIL-BODY",
	 "RFC 9112 6.3 rule 5: differing Content-Length values: MUST close and discard", 2},
	{"chunk-ext", "HTTP/1.1 200 OK\r\nTransfer-Encoding: chunked\r\n\r\n3;ext=1\r\nabc\r\n0\r\n\r\n",
	 "RFC 9112 7.1.1: chunk extensions MUST be ignored: body abc", 1},
	{"interim-headers", "HTTP/1.1 100 Continue\r\nContent-Length: 3\r\nX-Interim: 1\r\n\r\nHTTP/1.1 200 OK\r\nX-Final: 1\r\n\r\nabcdef",
	 "RFC 9110 15.2: a 1xx response is complete after its header section; the final response has no Content-Length (close-delimited body abcdef) and only X-Final", 1},
};
static int ndone;
static void done(struct evhttp_request *req, void *arg)
{
	struct evkeyval *h; struct evbuffer *in; size_t n;
	ndone++;
	if (!req || !evhttp_request_get_response_code(req)) { printf("request %d: FAILED\n", (int)(intptr_t)arg); return; }
	in = evhttp_request_get_input_buffer(req); n = evbuffer_get_length(in);
	printf("request %d: COMPLETED status=%d body[%zu]=\"%.*s\"\n", (int)(intptr_t)arg, evhttp_request_get_response_code(req),
	    n, (int)n, n ? (char *)evbuffer_pullup(in, -1) : "");
	TAILQ_FOREACH(h, evhttp_request_get_input_headers(req), next) printf("   header \"%s\" = \"%s\"\n", h->key, h->value);
}
int main(int argc, char **argv)
{
	struct event_base *base = event_base_new();
	struct sockaddr_in sin; socklen_t sl = sizeof(sin);
	unsigned i, c = 0; int lfd, fd = -1, it, sent = 0; char buf[4096];
	struct evhttp_connection *ec;
	for (i = 0; i < sizeof(cases) / sizeof(cases[0]); i++) if (argc > 1 && !strcmp(argv[1], cases[i].name)) c = i;
	lfd = socket(AF_INET, SOCK_STREAM, 0);
	memset(&sin, 0, sizeof(sin)); sin.sin_family = AF_INET; sin.sin_addr.s_addr = htonl(INADDR_LOOPBACK);
	bind(lfd, (struct sockaddr *)&sin, sizeof(sin)); listen(lfd, 4); getsockname(lfd, (struct sockaddr *)&sin, &sl);
	fcntl(lfd, F_SETFL, O_NONBLOCK);
	ec = evhttp_connection_base_new(base, NULL, "127.0.0.1", ntohs(sin.sin_port));
	for (i = 0; i < (unsigned)cases[c].nreq; i++) {
		struct evhttp_request *r = evhttp_request_new(done, (void *)(intptr_t)i);
		evhttp_add_header(evhttp_request_get_output_headers(r), "Host", "h");
		evhttp_make_request(ec, r, EVHTTP_REQ_GET, i ? "/r1" : "/r0");
	}
	printf("case %s (%d request(s) queued, the peer keeps the connection open)\nRFC: %s\npeer sends: ", cases[c].name, cases[c].nreq, cases[c].expect);
	for (const char *p = cases[c].stream; *p; p++) if (*p == '\r') printf("\\r"); else if (*p == '\n') printf("\\n"); else putchar(*p);
	printf("\n");
	for (it = 0; it < 300; it++) {
		event_base_loop(base, EVLOOP_NONBLOCK);
		if (fd < 0 && (fd = accept(lfd, NULL, NULL)) >= 0) fcntl(fd, F_SETFL, O_NONBLOCK);
		if (fd >= 0) {
			if (read(fd, buf, sizeof(buf)) > 0 && !sent) { sent = 1; write(fd, cases[c].stream, strlen(cases[c].stream)); }
		}
		usleep(1000);
	}
	printf("after 300 ms with the connection still open: %d of %d request(s) completed\n", ndone, cases[c].nreq);
	return 0;
}
