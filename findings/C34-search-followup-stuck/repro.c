/* C34: with the inflight limit reached, the follow-up of a request (next search-list candidate, or the TCP retry after a
 * truncated reply) is never transmitted, so the user callback never runs.
 * search_try_next() / client_retransmit_through_tcp() create the new internal request while the old one still occupies the
 * slot (so it gets no transaction id and goes to the waiting queue), call request_finished(old) -- which pumps the waiting
 * queue *before* the new request has been inserted -- and only then request_submit(new).  Nothing pumps the queue again. */
#include <event2/event.h>
#include <event2/dns.h>
#include <sys/socket.h>
#include <netinet/in.h>
#include <stdio.h>
#include <string.h>
#include <unistd.h>

static int reported, nq;
static void done(int err, char type, int count, int ttl, void *a, void *arg) { reported = 1; printf("callback: err=%d\n", err); }
static void ns_cb(evutil_socket_t fd, short what, void *arg)
{
	unsigned char b[512]; struct sockaddr_storage ss; socklen_t sl = sizeof ss;
	int n = recvfrom(fd, b, sizeof b, 0, (struct sockaddr *)&ss, &sl), j = 12;
	if (n < 12) return;
	printf("query %d:", ++nq); while (b[j]) { printf(" %.*s", b[j], b + j + 1); j += b[j] + 1; } printf("\n");
	b[2] |= 0x80; b[3] = 0x83;                       /* NXDOMAIN */
	sendto(fd, b, j + 5, 0, (struct sockaddr *)&ss, sl);
}
int main(void)
{
	struct event_base *base = event_base_new();
	struct evdns_base *dns = evdns_base_new(base, 0);
	struct sockaddr_in sin; socklen_t sl = sizeof sin;
	int fd = socket(AF_INET, SOCK_DGRAM, 0), i;
	memset(&sin, 0, sizeof sin); sin.sin_family = AF_INET; sin.sin_addr.s_addr = htonl(0x7f000001);
	bind(fd, (struct sockaddr *)&sin, sizeof sin); getsockname(fd, (struct sockaddr *)&sin, &sl);
	event_add(event_new(base, fd, EV_READ | EV_PERSIST, ns_cb, NULL), NULL);
	evdns_base_nameserver_sockaddr_add(dns, (struct sockaddr *)&sin, sizeof sin, 0);
	evdns_base_search_add(dns, "d1.test"); evdns_base_search_add(dns, "d2.test");
	evdns_base_set_option(dns, "max-inflight", "1"); evdns_base_set_option(dns, "timeout", "0.1");
	evdns_base_set_option(dns, "attempts", "2"); evdns_base_set_option(dns, "randomize-case", "0");
	evdns_base_resolve_ipv4(dns, "host", 0, done, NULL);      /* expected: host.d2.test, host.d1.test, host -> NXDOMAIN callback */
	for (i = 0; i < 1500 && !reported; i++) { event_base_loop(base, EVLOOP_NONBLOCK); usleep(2000); }
	printf(reported ? "reported\n" : "3 s (= 15 x all timeouts) later: %d query seen, the callback never ran\n", nq);
	return 0;
}
