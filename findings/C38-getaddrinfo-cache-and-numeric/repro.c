/* C38: five ways in which evdns_getaddrinfo does not return what the sources provide.
 * A fake nameserver on a loopback UDP socket answers  A -> 10.0.0.1, 10.0.0.2 (TTL 30)  and  AAAA -> 2001:db8::1 (TTL 1)
 * for every name, with a CNAME real.test in front when the name starts with 'c'; it counts the questions it sees. */
#include <event2/event.h>
#include <event2/dns.h>
#include <event2/util.h>
#include <sys/socket.h>
#include <netinet/in.h>
#include <arpa/inet.h>
#include <stdio.h>
#include <string.h>
#include <unistd.h>

static int nq4, nq6, done;
static void ns_cb(evutil_socket_t fd, short what, void *arg)
{
	unsigned char b[512]; struct sockaddr_storage ss; socklen_t sl = sizeof ss;
	int n = recvfrom(fd, b, sizeof b, 0, (struct sockaddr *)&ss, &sl), j = 12, t, an = 0;
	static const unsigned char cname[] = {0xc0,12,0,5,0,1,0,0,0,30,0,11,4,'r','e','a','l',4,'t','e','s','t',0};
	if (n < 12) return;
	while (b[j]) j += b[j] + 1;
	t = b[j + 2]; j += 5;
	if (t == 1) nq4++; else nq6++;
	b[2] = 0x81; b[3] = 0x80;
	if ((b[13] | 0x20) == 'c') { memcpy(b + j, cname, sizeof cname); j += sizeof cname; an++; }
	if (t == 1) { int k; for (k = 1; k <= 2; k++) { unsigned char rr[] = {0xc0,12,0,1,0,1,0,0,0,30,0,4,10,0,0,(unsigned char)k}; memcpy(b + j, rr, sizeof rr); j += sizeof rr; an++; } }
	else { unsigned char rr[28] = {0xc0,12,0,28,0,1,0,0,0,1,0,16,0x20,1,0x0d,0xb8}; rr[27] = 1; memcpy(b + j, rr, sizeof rr); j += sizeof rr; an++; }
	b[7] = an;
	sendto(fd, b, j, 0, (struct sockaddr *)&ss, sl);
}
static void gai_cb(int err, struct evutil_addrinfo *res, void *arg)
{
	struct evutil_addrinfo *ai; char a[64];
	done = 1;
	printf("    -> err=%d (%s)", err, err ? evutil_gai_strerror(err) : "ok");
	for (ai = res; ai; ai = ai->ai_next) {
		int port = ai->ai_family == AF_INET ? ntohs(((struct sockaddr_in *)ai->ai_addr)->sin_port) : ntohs(((struct sockaddr_in6 *)ai->ai_addr)->sin6_port);
		evutil_inet_ntop(ai->ai_family, ai->ai_family == AF_INET ? (void *)&((struct sockaddr_in *)ai->ai_addr)->sin_addr : (void *)&((struct sockaddr_in6 *)ai->ai_addr)->sin6_addr, a, sizeof a);
		printf(" [%s port %d %s]", a, port, ai->ai_socktype == SOCK_STREAM ? "tcp" : ai->ai_socktype == SOCK_DGRAM ? "udp" : "?");
	}
	if (res) evutil_freeaddrinfo(res);
}
static void look(struct event_base *base, struct evdns_base *dns, const char *node, const char *serv, int fam, int st, int flags, const char *what)
{
	struct evutil_addrinfo h; int i;
	memset(&h, 0, sizeof h); h.ai_family = fam; h.ai_socktype = st; h.ai_flags = flags;
	nq4 = nq6 = done = 0;
	printf("  %s\n", what);
	evdns_getaddrinfo(dns, node, serv, &h, gai_cb, NULL);
	for (i = 0; i < 400 && !done; i++) { event_base_loop(base, EVLOOP_NONBLOCK); usleep(2000); }
	printf("%s   (questions seen: %d A, %d AAAA)\n", done ? "" : "    -> still pending", nq4, nq6);
}
int main(void)
{
	struct event_base *base = event_base_new();
	struct evdns_base *dns = evdns_base_new(base, 0);
	struct sockaddr_in sin; socklen_t sl = sizeof sin;
	int fd = socket(AF_INET, SOCK_DGRAM, 0);
	FILE *f = fopen("repro-hosts", "w"); fputs("10.9.9.9 hostv4\n", f); fclose(f);
	memset(&sin, 0, sizeof sin); sin.sin_family = AF_INET; sin.sin_addr.s_addr = htonl(0x7f000001);
	bind(fd, (struct sockaddr *)&sin, sizeof sin); getsockname(fd, (struct sockaddr *)&sin, &sl);
	event_add(event_new(base, fd, EV_READ | EV_PERSIST, ns_cb, NULL), NULL);
	evdns_base_nameserver_sockaddr_add(dns, (struct sockaddr *)&sin, sizeof sin, 0);
	evdns_base_load_hosts(dns, "repro-hosts"); unlink("repro-hosts");
	evdns_base_set_option(dns, "timeout", "0.2"); evdns_base_set_option(dns, "attempts", "1");

	printf("1. numeric node of the other family is sent to the nameserver\n");
	look(base, dns, "1.2.3.4", NULL, AF_INET6, SOCK_STREAM, 0, "getaddrinfo(\"1.2.3.4\", PF_INET6): expected an error without any question");
	printf("2. port missing on the second (UDP) entry of a hosts-file result\n");
	look(base, dns, "hostv4", "80", AF_UNSPEC, 0, 0, "getaddrinfo(\"hostv4\", \"80\", socktype 0): expected port 80 on every entry");
	printf("3. cache entry lives for the TTL of the first answer (A: 30 s) although the AAAA record has TTL 1 s\n");
	look(base, dns, "dual.test", "80", AF_UNSPEC, SOCK_STREAM, 0, "first lookup of dual.test");
	sleep(2);
	look(base, dns, "dual.test", "80", AF_UNSPEC, SOCK_STREAM, 0, "2 s later: the AAAA record is past its TTL, expected a new AAAA question");
	printf("4. cache keyed by name only: a PF_INET result shadows AAAA questions that were never asked\n");
	look(base, dns, "four.test", "80", AF_INET, SOCK_STREAM, 0, "lookup of four.test with PF_INET");
	look(base, dns, "four.test", "80", AF_UNSPEC, SOCK_STREAM, 0, "then PF_UNSPEC: expected 2001:db8::1 as well");
	look(base, dns, "four.test", "80", AF_INET6, SOCK_STREAM, 0, "then PF_INET6: expected 2001:db8::1");
	printf("5. AI_CANONNAME + cache: only the first address comes back\n");
	look(base, dns, "cn.test", "80", AF_UNSPEC, SOCK_STREAM, EVUTIL_AI_CANONNAME, "first AI_CANONNAME lookup of cn.test");
	look(base, dns, "cn.test", "80", AF_UNSPEC, SOCK_STREAM, EVUTIL_AI_CANONNAME, "same lookup again (within every TTL? no: AAAA ttl is 1 s, but see 3.)");
	return 0;
}
