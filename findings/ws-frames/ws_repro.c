/* Standalone reproduction of the WebSocket (ws.c) findings of property C31 / C32.
 *
 *   ws_repro frag        TEXT(fin=0,"ab") CONT(fin=1,"cd")         RFC 6455: deliver text "abcd"
 *   ws_repro afterclose  CLOSE + TEXT("x") in one write             RFC 6455: nothing after close
 *   ws_repro badfrag     TEXT(fin=0,"ab") TEXT(fin=1,"cd")          RFC 6455: fail, deliver nothing
 *   ws_repro orphancont  CONT(fin=0,"ab") TEXT(fin=1,"cd")          RFC 6455: fail, deliver nothing
 *   ws_repro longkey     Sec-WebSocket-Key of 1000 bytes            accept = base64(sha1(key+GUID))
 *
 * A real evhttp server with a route calling evws_new_session(); a raw loopback
 * TCP client sends the upgrade request and then the frame bytes below.
 */
#include <event2/event.h>
#include <event2/http.h>
#include <event2/buffer.h>
#include <event2/bufferevent.h>
#include <event2/ws.h>
#include <sys/socket.h>
#include <netinet/in.h>
#include <arpa/inet.h>
#include <signal.h>
#include <stdio.h>
#include <string.h>
#include <unistd.h>
#include <fcntl.h>
#include <errno.h>

static int nclosed;
static void on_msg(struct evws_connection *c, int type, const unsigned char *d, size_t n, void *arg)
{
	printf("  message callback: type=%d len=%zu payload=\"%.*s\"\n", type, n, (int)n, d);
}
static void on_close(struct evws_connection *c, void *arg) { nclosed++; printf("  close callback\n"); }
static void on_upgrade(struct evhttp_request *req, void *arg)
{
	struct evws_connection *c = evws_new_session(req, on_msg, NULL, 0);
	if (c) evws_connection_set_closecb(c, on_close, NULL);
}

static void spin(struct event_base *b, int fd, char *buf, size_t *n, size_t cap)
{
	for (int i = 0; i < 50; i++) {
		ssize_t r;
		event_base_loop(b, EVLOOP_NONBLOCK);
		while ((r = read(fd, buf + *n, cap - *n)) > 0) *n += (size_t)r;
		usleep(1000);
	}
}

int main(int argc, char **argv)
{
	const char *sc = argc > 1 ? argv[1] : "frag";
	struct event_base *base = event_base_new();
	struct evhttp *http = evhttp_new(base);
	struct evhttp_bound_socket *bs;
	struct sockaddr_in sin; socklen_t sl = sizeof sin;
	char req[4096], key[2048] = "dGhlIHNhbXBsZSBub25jZQ==", buf[8192];
	size_t n = 0;
	int fd;
	/* masked client frames, mask key 37 fa 21 3d */
	static const unsigned char M[4] = {0x37, 0xfa, 0x21, 0x3d};
	unsigned char fr[64]; size_t fl = 0;
#define FRAME(b0, s) do { size_t l_ = strlen(s); fr[fl++] = (b0); fr[fl++] = 0x80 | (unsigned char)l_; memcpy(fr + fl, M, 4); fl += 4; \
		for (size_t i_ = 0; i_ < l_; i_++) fr[fl++] = (unsigned char)(s)[i_] ^ M[i_ & 3]; } while (0)

	signal(SIGPIPE, SIG_IGN);
	evhttp_set_cb(http, "/ws", on_upgrade, NULL);
	bs = evhttp_bind_socket_with_handle(http, "127.0.0.1", 0);
	getsockname(evhttp_bound_socket_get_fd(bs), (struct sockaddr *)&sin, &sl);

	if (!strcmp(sc, "longkey")) { memset(key, 'A', 1000); key[1000] = 0; }
	snprintf(req, sizeof req, "GET /ws HTTP/1.1\r\nHost: x\r\nUpgrade: websocket\r\nConnection: Upgrade\r\n"
	    "Sec-WebSocket-Key: %s\r\nSec-WebSocket-Version: 13\r\n\r\n", key);
	fd = socket(AF_INET, SOCK_STREAM, 0);
	connect(fd, (struct sockaddr *)&sin, sizeof sin);
	fcntl(fd, F_SETFL, O_NONBLOCK);
	if (write(fd, req, strlen(req)) < 0) return 2;
	spin(base, fd, buf, &n, sizeof buf - 1);
	buf[n] = 0;
	{
		char *a = strstr(buf, "Sec-WebSocket-Accept: ");
		printf("scenario %s\n  handshake: %.12s  accept=%.28s\n", sc, buf, a ? a + 22 : "(none)");
	}
	if (!strcmp(sc, "longkey")) {
		printf("  expected for a key of 1000 x 'A': base64(sha1(key + GUID)) = s3C0AzKlY8Mo3O9zq6EOpV0ezmw=\n"
		       "  (ws_gen_accept_key snprintf()s key+GUID into char buf[1024]: the digest input is cut at 1023 bytes; that gives rlJ8WN9cDYIaYNPlmgcJmw/RQzI=)\n");
		return 0;
	}
	n = 0;
	if (!strcmp(sc, "frag")) { FRAME(0x01, "ab"); FRAME(0x80, "cd"); }
	else if (!strcmp(sc, "afterclose")) { FRAME(0x88, ""); FRAME(0x81, "x"); }
	else if (!strcmp(sc, "badfrag")) { FRAME(0x01, "ab"); FRAME(0x81, "cd"); }
	else if (!strcmp(sc, "orphancont")) { FRAME(0x00, "ab"); FRAME(0x81, "cd"); }
	else { fprintf(stderr, "unknown scenario\n"); return 2; }
	printf("  client writes %zu bytes:", fl);
	for (size_t i = 0; i < fl; i++) printf(" %02x", fr[i]);
	printf("\n");
	if (write(fd, fr, fl) < 0) return 2;
	spin(base, fd, buf, &n, sizeof buf);
	printf("  server wrote back %zu bytes:", n);
	for (size_t i = 0; i < n; i++) printf(" %02x", (unsigned char)buf[i]);
	printf("\n  close callbacks: %d\n", nclosed);
	return 0;
}
