/* C28: evhttp_uri_join returns a string for setter-built URIs that have no faithful string form;
 * the string parses into different components (or not at all) instead of join refusing. */
#include <event2/http.h>
#include <stdio.h>
#include <string.h>
static const char *s(const char *x) { return x ? x : "(null)"; }
static int show(const char *what, struct evhttp_uri *u)
{
	char buf[256];
	const char *j = evhttp_uri_join(u, buf, sizeof(buf));
	struct evhttp_uri *v = j ? evhttp_uri_parse(j) : NULL;
	int bad = 0;
	printf("%s\n  built : scheme=%s userinfo=%s host=%s port=%d path=%s\n", what, s(evhttp_uri_get_scheme(u)),
	    s(evhttp_uri_get_userinfo(u)), s(evhttp_uri_get_host(u)), evhttp_uri_get_port(u), s(evhttp_uri_get_path(u)));
	printf("  join  : %s\n", s(j));
	if (j && !v) { printf("  parse : REJECTED\n"); bad = 1; }
	if (v) {
		printf("  parse : scheme=%s userinfo=%s host=%s port=%d path=%s\n", s(evhttp_uri_get_scheme(v)),
		    s(evhttp_uri_get_userinfo(v)), s(evhttp_uri_get_host(v)), evhttp_uri_get_port(v), s(evhttp_uri_get_path(v)));
		bad = strcmp(s(evhttp_uri_get_scheme(u)), s(evhttp_uri_get_scheme(v))) ||
		    strcmp(s(evhttp_uri_get_userinfo(u)), s(evhttp_uri_get_userinfo(v))) ||
		    strcmp(s(evhttp_uri_get_host(u)), s(evhttp_uri_get_host(v))) ||
		    evhttp_uri_get_port(u) != evhttp_uri_get_port(v) ||
		    strcmp(s(evhttp_uri_get_path(u)), s(evhttp_uri_get_path(v)));
		evhttp_uri_free(v);
	}
	evhttp_uri_free(u);
	return bad;
}
int main(void)
{
	int bad = 0, rc = 0;
	struct evhttp_uri *u;
	u = evhttp_uri_new(); rc |= evhttp_uri_set_path(u, "a:b");
	bad += show("1. no scheme, first path segment contains ':'", u);
	u = evhttp_uri_new(); rc |= evhttp_uri_set_path(u, "//x");
	bad += show("2. no authority, path begins with \"//\"", u);
	u = evhttp_uri_new(); rc |= evhttp_uri_set_userinfo(u, "u"); rc |= evhttp_uri_set_port(u, 80); rc |= evhttp_uri_set_path(u, "/p");
	bad += show("3. userinfo and port without host", u);
	u = evhttp_uri_new(); rc |= evhttp_uri_set_scheme(u, "http"); rc |= evhttp_uri_set_host(u, "h"); rc |= evhttp_uri_set_port(u, 65536); rc |= evhttp_uri_set_path(u, "/");
	bad += show("4. port above 65535", u);
	printf("all setters returned %d; %d of 4 joins are not faithful (join should have refused)\n", rc, bad);
	return bad ? 1 : 0;
}
