/* C40: evutil_inet_pton accepts texts the platform's strict inet_pton rejects (beyond the allowed
 * IPv4 leading zeros): sscanf("%u") takes a sign, leading blanks and wraps on overflow; strtol(.,16)
 * takes a "0x" prefix in an IPv6 group; a trailing ':' after the last group is ignored. */
#include <event2/util.h>
#include <arpa/inet.h>
#include <stdio.h>
int main(void)
{
	static const struct { int af; const char *t; } c[] = {
		{ AF_INET, "+1.2.3.4" }, { AF_INET, "1.2.3.-0" }, { AF_INET, " 1.2.3.4" }, { AF_INET, "1.2.3.4294967297" },
		{ AF_INET6, "::0x1" }, { AF_INET6, "1:2:3:4:5:6:7:8:" }, { AF_INET6, "1::2:" }, { AF_INET6, "::1.2.3.+4" },
	};
	unsigned char a[16], b[16];
	unsigned i;
	int bad = 0;
	for (i = 0; i < sizeof(c) / sizeof(c[0]); i++) {
		int le = evutil_inet_pton(c[i].af, c[i].t, a), pl = inet_pton(c[i].af, c[i].t, b);
		printf("%-6s \"%s\": evutil_inet_pton=%d platform inet_pton=%d%s\n", c[i].af == AF_INET ? "inet" : "inet6",
		    c[i].t, le, pl, le != pl ? "   <-- differs" : "");
		bad += le != pl;
	}
	printf("%d texts accepted by evutil_inet_pton but rejected by the platform\n", bad);
	return bad ? 1 : 0;
}
