/* evbuffer_pullup() on a buffer whose first chain is a multicast (add_buffer_reference) chain -- or the
 * referenced source chain itself -- extends that chain in place when the shared allocation has spare room
 * (buffer.c:1425 tests only buffer_len - misalign >= size, not EVBUFFER_IMMUTABLE).  Source and copy then
 * both write their own following bytes into the same spare room of the shared chain and corrupt each other. */
#include <event2/buffer.h>
#include <stdio.h>
#include <string.h>
static void show(const char *name, struct evbuffer *b)
{
	char tmp[64] = {0};
	evbuffer_copyout(b, tmp, sizeof tmp - 1);
	printf("%s = \"%s\"\n", name, tmp);
}
int main(void)
{
	struct evbuffer *src = evbuffer_new(), *dst = evbuffer_new();
	evbuffer_add(src, "x", 1);
	evbuffer_add_buffer_reference(dst, src);   /* dst: multicast chain sharing src's memory */
	evbuffer_add(dst, "AAAA", 4);              /* goes to a new chain (the multicast chain is immutable) */
	evbuffer_pullup(dst, -1);                  /* copies "AAAA" into the SHARED chain's spare room */
	show("dst", dst);
	evbuffer_add(src, "BBBB", 4);              /* new chain in src */
	evbuffer_pullup(src, -1);                  /* copies "BBBB" into the same spare room */
	show("src", src);
	show("dst", dst);                          /* expected xAAAA */
	evbuffer_free(dst); evbuffer_free(src);
	return 0;
}
