#!/bin/sh
# Build and run the repro against the current working tree of /repo (ASan static build of the kit).
# exit 0: the deferred callback preempts (fixed); exit 1: order 12D (the defect).
set -e
cd "$(dirname "$0")"
B=$(../../kit/build.sh asan | tail -1)
R=${VERIF_REPO:-/repo}
cc -g -fsanitize=address -I "$B/include" -I $R/include -I $R repro.c -o ../../out/C03_defer_repro \
   -L "$B/lib" -levent_core -lpthread
ASAN_OPTIONS=detect_leaks=0 ../../out/C03_defer_repro
