/* C03: a deferred callback scheduled (priority 1 of 3) from inside a running priority-2 callback must run
 * before the next priority-2 callback ("a lower-priority callback runs only when no higher-priority
 * non-internal callback is pending").  Before the fix event_callback_activate_nolock_() did not set
 * event_continue, so the order was L1 L2 D instead of L1 D L2.
 * build: cc -I/repo/include -I<build>/include -I/repo repro.c <build>/lib/libevent_core.a -o repro */
#include <stdio.h>
#include <string.h>
#include <event2/event.h>
#include <event2/event_struct.h>
#include "defer-internal.h"
static char order[16];
static struct event_base *base;
static struct event_callback dcb;
static void dfn(struct event_callback *cb, void *arg) { (void)cb; (void)arg; strcat(order, "D"); }
static void l1(evutil_socket_t fd, short w, void *a) { (void)fd; (void)w; (void)a; strcat(order, "1"); event_deferred_cb_schedule_(base, &dcb); }
static void l2(evutil_socket_t fd, short w, void *a) { (void)fd; (void)w; (void)a; strcat(order, "2"); }
int main(void)
{
	struct event *e1, *e2;
	base = event_base_new();
	event_base_priority_init(base, 3);
	event_deferred_cb_init_(&dcb, 1, dfn, NULL);
	e1 = event_new(base, -1, 0, l1, NULL); e2 = event_new(base, -1, 0, l2, NULL);
	event_priority_set(e1, 2); event_priority_set(e2, 2);
	event_active(e1, EV_WRITE, 1); event_active(e2, EV_WRITE, 1);
	event_base_loop(base, EVLOOP_NONBLOCK);
	event_base_loop(base, EVLOOP_NONBLOCK);
	printf("order=%s (expected 1D2)\n", order);
	return strcmp(order, "1D2") ? 1 : 0;
}
