/* Standalone reproduction of the HTTP request framing defects found by check C23.
 * Starts an evhttp server on a loopback port, sends one raw request stream and
 * prints every request the generic callback receives plus what the server answered.
 *
 *   cc -I/verif/build/asan/include -I/repo/include repro.c -o repro -fsanitize=address \
 *      -L/verif/build/asan/lib -levent_extra -levent_core -lpthread
 *   ./repro <case>      (cases: ws-colon te-gzip-chunked te-chunked-gzip cl-plus cl-conflict head-body chunk-ext space-target)
 */
#include <sys/socket.h>
#include <netinet/in.h>
#include <arpa/inet.h>
#include <unistd.h>
#include <fcntl.h>
#include <stdio.h>
#include <string.h>
#include <stdlib.h>
#include <sys/queue.h>
#include <event2/event.h>
#include <event2/http.h>
#include <event2/buffer.h>
#include <event2/keyvalq_struct.h>

static const struct { const char *name, *stream, *expect; } cases[] = {
	{"ws-colon", "POST /p HTTP/1.1\r\nHost: h\r\nContent-Length : 24\r\n\r\nGET /smuggled HTTP/1.1\r\n\r\n",
	 "RFC 9112 5.1: whitespace between field name and colon MUST be rejected with 400"},
	{"te-gzip-chunked", "POST /p HTTP/1.1\r\nHost: h\r\nTransfer-Encoding: gzip, chunked\r\n\r\n18\r\nGET /smuggled HTTP/1.1\r\n\r\n0\r\n\r\n",
	 "RFC 9112 6.3: final coding chunked => chunked framing (or 501); never an empty body"},
	{"te-chunked-gzip", "POST /p HTTP/1.1\r\nHost: h\r\nTransfer-Encoding: chunked, gzip\r\n\r\nGET /smuggled HTTP/1.1\r\n\r\n",
	 "RFC 9112 6.3: Transfer-Encoding whose final coding is not chunked in a request MUST be answered with 400"},
	{"cl-plus", "POST /p HTTP/1.1\r\nHost: h\r\nContent-Length: +3\r\n\r\nabc",
	 "RFC 9112 6.3 rule 5: invalid Content-Length (1*DIGIT only) MUST be answered with 400"},
	{"cl-conflict", "POST /p HTTP/1.1\r\nHost: h\r\nContent-Length: 0\r\nContent-Length: 24\r\n\r\nGET /smuggled HTTP/1.1\r\n\r\n",
	 "RFC 9112 6.3 rule 5: differing Content-Length values MUST be answered with 400"},
	{"head-body", "HEAD /h HTTP/1.1\r\nHost: h\r\nContent-Length: 24\r\n\r\nGET /smuggled HTTP/1.1\r\n\r\n",
	 "RFC 9112 6: request framing is independent of the method; the 24 octets are the body of HEAD"},
	{"chunk-ext", "POST /p HTTP/1.1\r\nHost: h\r\nTransfer-Encoding: chunked\r\n\r\n3;ext=1\r\nabc\r\n0\r\n\r\n",
	 "RFC 9112 7.1.1: a recipient MUST ignore unrecognized chunk extensions (expected: POST delivered with body abc)"},
	{"space-target", "GET  /a HTTP/1.1\r\nHost: h\r\n\r\n",
	 "RFC 9112 3: no whitespace in the request-target: reject, or parse on whitespace giving target /a"},
};

static void gen_cb(struct evhttp_request *req, void *arg)
{
	struct evkeyval *h;
	struct evbuffer *in = evhttp_request_get_input_buffer(req);
	size_t n = evbuffer_get_length(in);
	printf("DELIVERED cmd=%d uri=\"%s\" body[%zu]=\"%.*s\"\n", (int)evhttp_request_get_command(req),
	    evhttp_request_get_uri(req), n, (int)n, n ? (char *)evbuffer_pullup(in, -1) : "");
	TAILQ_FOREACH(h, evhttp_request_get_input_headers(req), next)
		printf("   header \"%s\" = \"%s\"\n", h->key, h->value);
	evhttp_send_reply(req, 200, "OK", NULL);
}

int main(int argc, char **argv)
{
	struct event_base *base = event_base_new();
	struct evhttp *http = evhttp_new(base);
	struct evhttp_bound_socket *bs;
	struct sockaddr_in sin; socklen_t sl = sizeof(sin);
	unsigned i, c = 0; int fd, it; char buf[4096]; ssize_t r;
	for (i = 0; i < sizeof(cases) / sizeof(cases[0]); i++) if (argc > 1 && !strcmp(argv[1], cases[i].name)) c = i;
	evhttp_set_gencb(http, gen_cb, NULL);
	bs = evhttp_bind_socket_with_handle(http, "127.0.0.1", 0);
	getsockname(evhttp_bound_socket_get_fd(bs), (struct sockaddr *)&sin, &sl);
	fd = socket(AF_INET, SOCK_STREAM, 0);
	connect(fd, (struct sockaddr *)&sin, sizeof(sin));
	printf("case %s\nRFC: %s\nsending: ", cases[c].name, cases[c].expect);
	for (const char *p = cases[c].stream; *p; p++) if (*p == '\r') printf("\\r"); else if (*p == '\n') printf("\\n"); else putchar(*p);
	printf("\n");
	write(fd, cases[c].stream, strlen(cases[c].stream));
	fcntl(fd, F_SETFL, O_NONBLOCK);
	for (it = 0; it < 200; it++) {
		event_base_loop(base, EVLOOP_NONBLOCK);
		while ((r = read(fd, buf, sizeof(buf) - 1)) > 0) {
			buf[r] = 0;
			for (char *l = strtok(buf, "\n"); l; l = strtok(NULL, "\n")) if (!strncmp(l, "HTTP/", 5)) printf("RESPONSE %s\n", l);
		}
		if (r == 0) { printf("CLOSED by server\n"); break; }
		usleep(1000);
	}
	return 0;
}
