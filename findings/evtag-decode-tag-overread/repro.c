/* C42: decode_tag_internal (event_tagging.c) pulls up at most 5 bytes but its loop reads the next byte
 * before checking that the tag is already too long: with 5 continuation bytes (high bit set, 5th byte's
 * low bits <= 15) followed by more data it reads data[5], one byte past the contiguous region.
 * With an exact-size first chain (evbuffer_add_reference) ASan reports heap-buffer-overflow. */
#include <event2/buffer.h>
#include <event2/tag.h>
#include <stdio.h>
#include <stdlib.h>
#include <string.h>
static void free_ref(const void *d, size_t n, void *a) { (void)n; (void)a; free((void *)d); }
int main(void)
{
	struct evbuffer *b = evbuffer_new();
	unsigned char *first = malloc(5), *second = malloc(1);
	ev_uint32_t tag = 0;
	int rc;
	memset(first, 0x80, 5);
	second[0] = 0x00;
	evbuffer_add_reference(b, first, 5, free_ref, NULL);     /* chain 1: exactly 5 bytes */
	evbuffer_add_reference(b, second, 1, free_ref, NULL);    /* chain 2 */
	rc = evtag_peek(b, &tag);                                 /* or evtag_unmarshal*, evtag_consume ... */
	printf("evtag_peek returned %d (the tag is malformed: -1 is right, but not after reading out of bounds)\n", rc);
	evbuffer_free(b);
	return 0;
}
