/* Allocation failures inside evbuffer calls (C14).  A counting allocator installed with
 * event_set_mem_functions fails exactly one chosen allocation.
 *  1. evbuffer_remove_buffer(src, dst, n) ignores the result of its inner evbuffer_add(): when the chain
 *     for the copied part cannot be allocated, src is drained anyway and success (n) is returned: bytes lost.
 *  2. evbuffer_add_buffer_reference(): APPEND_CHAIN_MULTICAST returns silently when its chain allocation
 *     fails; the call returns 0 although nothing (or only a part) was added.
 *  3. evbuffer_prepend(): fills the first chain's misalign space first, then fails to allocate the new
 *     chain and returns -1 with part of the data already prepended. */
#include <event2/event.h>
#include <event2/buffer.h>
#include <stdio.h>
#include <stdlib.h>
#include <string.h>
static int armed; static long count, fail_at;
static void *m_(size_t n) { if (armed && ++count == fail_at) return NULL; return malloc(n); }
static void *r_(void *p, size_t n) { if (armed && ++count == fail_at) return NULL; return realloc(p, n); }
static void f_(void *p) { free(p); }
int main(void)
{
	static char big[3000];
	struct evbuffer *a, *b;
	int r;
	event_set_mem_functions(m_, r_, f_);
	event_set_log_callback(NULL);
	memset(big, 'x', sizeof big);

	a = evbuffer_new(); b = evbuffer_new();
	evbuffer_add(a, big, 3000);
	armed = 1; count = 0; fail_at = 1;
	r = evbuffer_remove_buffer(a, b, 1000);
	armed = 0;
	printf("1. remove_buffer(1000) with failing allocation: returned %d, src %zu + dst %zu = %zu bytes (3000 before)\n",
	    r, evbuffer_get_length(a), evbuffer_get_length(b), evbuffer_get_length(a) + evbuffer_get_length(b));
	evbuffer_free(a); evbuffer_free(b);

	a = evbuffer_new(); b = evbuffer_new();
	evbuffer_add(a, big, 100);
	armed = 1; count = 0; fail_at = 1;
	r = evbuffer_add_buffer_reference(b, a);
	armed = 0;
	printf("2. add_buffer_reference with failing allocation: returned %d, dst has %zu bytes (source has %zu)\n",
	    r, evbuffer_get_length(b), evbuffer_get_length(a));
	evbuffer_free(b); evbuffer_free(a);

	a = evbuffer_new();
	evbuffer_add(a, big, 10); evbuffer_drain(a, 5);     /* first chain now has 5 bytes of misalign space */
	armed = 1; count = 0; fail_at = 1;
	r = evbuffer_prepend(a, big, 2000);
	armed = 0;
	printf("3. prepend(2000) with failing allocation: returned %d, length %zu (5 before)\n", r, evbuffer_get_length(a));
	evbuffer_free(a);
	return 0;
}
