/* A signal event active with ncalls = 2 deletes itself in the first invocation: event_del_nolock_() zeroes the
 * loop counter through ev_pncalls but leaves ev_pncalls pointing at the stack variable of event_signal_closure()
 * (and ev_ncalls = 1).  A second event_del() of the same event after the closure returned writes through the
 * dangling pointer (ASan: stack-use-after-scope / stack-use-after-return in event_del_nolock_).
 * exit 0: no bad write (fixed); ASan aborts otherwise. */
#include <signal.h>
#include <stdio.h>
#include <event2/event.h>
static int calls;
static void cb(evutil_socket_t s, short w, void *arg) { (void)s; (void)w; calls++; event_del(*(struct event **)arg); }
int main(void)
{
	struct event_base *base = event_base_new();
	struct event *ev;
	ev = event_new(base, SIGUSR1, EV_SIGNAL | EV_PERSIST, cb, &ev);
	event_add(ev, NULL);
	event_active(ev, EV_SIGNAL, 2);
	event_base_loop(base, EVLOOP_NONBLOCK);
	event_del(ev);          /* ev_ncalls == 1, ev_pncalls dangling before the fix */
	printf("callbacks=%d (expected 1)\n", calls);
	event_free(ev); event_base_free(base);
	return calls == 1 ? 0 : 1;
}
