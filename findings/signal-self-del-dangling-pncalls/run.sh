#!/bin/sh
# Build and run the repro against the current working tree of /repo (ASan static build of the kit).
set -e
cd "$(dirname "$0")"
B=$(../../kit/build.sh asan | tail -1)
R=${VERIF_REPO:-/repo}
cc -g -fsanitize=address -I "$B/include" -I $R/include repro.c -o ../../out/sig_pncalls_repro -L "$B/lib" -levent_core -lpthread
ASAN_OPTIONS=detect_leaks=0:detect_stack_use_after_return=1 ../../out/sig_pncalls_repro
