/* evbuffer_add_buffer_reference() into an EMPTY destination that still owns an (empty) chain
 * frees that chain (evbuffer_free_all_chains(outbuf->first), buffer.c:1068) without resetting
 * first/last/last_with_datap, then APPEND_CHAIN_MULTICAST -> evbuffer_chain_insert walks the
 * freed chain: heap-use-after-free (buffer.c:304).  evbuffer_add_buffer() in the same situation
 * is fine because COPY_CHAIN overwrites the pointers. */
#include <event2/buffer.h>
#include <stdio.h>
int main(void)
{
	struct evbuffer *src = evbuffer_new(), *dst = evbuffer_new();
	evbuffer_add(src, "hello", 5);
	evbuffer_expand(dst, 100);                 /* dst: length 0, one empty chain */
	int r = evbuffer_add_buffer_reference(dst, src);
	printf("r=%d len=%zu\n", r, evbuffer_get_length(dst));
	evbuffer_free(dst); evbuffer_free(src);
	return 0;
}
