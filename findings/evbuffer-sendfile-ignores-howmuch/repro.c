/* evbuffer_write_atmost() must not write more than `howmuch`; with a sendfile chain it writes the whole chain. */
#include <event2/buffer.h>
#include <sys/socket.h>
#include <stdio.h>
#include <stdlib.h>
#include <string.h>
#include <unistd.h>
int main(void)
{
	char path[] = "/tmp/sfXXXXXX", data[1000], rd[2000];
	int fd = mkstemp(path), sv[2];
	struct evbuffer *b = evbuffer_new();
	struct evbuffer_file_segment *seg;
	unlink(path); memset(data, 'x', sizeof data);
	if (write(fd, data, sizeof data) != sizeof data) return 2;
	socketpair(AF_UNIX, SOCK_STREAM, 0, sv);
	evbuffer_set_flags(b, EVBUFFER_FLAG_DRAINS_TO_FD);
	seg = evbuffer_file_segment_new(fd, 0, -1, EVBUF_FS_CLOSE_ON_FREE);
	evbuffer_add_file_segment(b, seg, 0, -1);
	evbuffer_file_segment_free(seg);
	int r = evbuffer_write_atmost(b, sv[0], 10);
	printf("write_atmost(10) returned %d, %zd bytes on the wire, %zu left in the buffer\n", r, read(sv[1], rd, sizeof rd), evbuffer_get_length(b));
	evbuffer_free(b);
	return 0;
}
