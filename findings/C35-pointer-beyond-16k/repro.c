/* C35: name compression emits corrupt pointers for names first written at offset >= 16384.
 * dnslabel_table_add() remembers any offset; dnsname_to_labels() emits (pos | 0xc000), but a
 * compression pointer only has 14 bits: for pos >= 0x4000 the pointer targets pos & 0x3fff (or is
 * not a pointer at all), so the second use of the name decodes to garbage. */
#include <event2/event.h>
#include <event2/dns.h>
#include <event2/dns_struct.h>
#include <event2/listener.h>
#include <sys/socket.h>
#include <netinet/in.h>
#include <stdio.h>
#include <string.h>
#include <unistd.h>

static void cb(struct evdns_server_request *req, void *arg)
{
	static char pad[17000];
	memset(pad, 'p', sizeof pad);
	evdns_server_request_add_reply(req, EVDNS_ANSWER_SECTION, "ab.cd", 16, 1, 1, sizeof pad, 0, pad);
	evdns_server_request_add_reply(req, EVDNS_ANSWER_SECTION, "late.example", 1, 1, 2, 4, 0, "\1\1\1\1");
	evdns_server_request_add_reply(req, EVDNS_ANSWER_SECTION, "late.example", 1, 1, 3, 4, 0, "\2\2\2\2");
	evdns_server_request_respond(req, 0);
}
int main(void)
{
	static const unsigned char q[] = {0,23, 0x12,0x34,1,0,0,1,0,0,0,0,0,0,2,'a','b',2,'c','d',0,0,16,0,1};
	static unsigned char r[70000];
	struct event_base *base = event_base_new();
	struct sockaddr_in sin; socklen_t sl = sizeof sin;
	struct evconnlistener *lis;
	int c = socket(AF_INET, SOCK_STREAM, 0), n = 0, i, k, first;
	memset(&sin, 0, sizeof sin); sin.sin_family = AF_INET; sin.sin_addr.s_addr = htonl(0x7f000001);
	lis = evconnlistener_new_bind(base, NULL, NULL, LEV_OPT_CLOSE_ON_FREE, 8, (struct sockaddr *)&sin, sizeof sin);
	getsockname(evconnlistener_get_fd(lis), (struct sockaddr *)&sin, &sl);
	evdns_add_server_port_with_listener(base, lis, 0, cb, NULL);
	connect(c, (struct sockaddr *)&sin, sizeof sin);
	send(c, q, sizeof q, 0);
	for (i = 0; i < 200; i++) {
		event_base_loop(base, EVLOOP_NONBLOCK); usleep(500);
		k = recv(c, r + n, sizeof r - n, MSG_DONTWAIT);
		if (k > 0) n += k;
	}
	first = 2 + 12 + 11 + (2 + 10 + 17000);   /* offset (in the TCP stream) of the first "late.example" record */
	printf("stream %d bytes; message offset of first 'late.example' = %d (>= 16384)\n", n, first - 2);
	printf("owner of 2nd 'late.example' record: %02x %02x  -> ", r[first + 14 + 14], r[first + 14 + 15]);
	k = ((r[first + 28] & 0x3f) << 8) | r[first + 29];
	if ((r[first + 28] & 0xc0) == 0xc0) printf("pointer to offset %d (should be %d)\n", k, first - 2);
	else printf("not a compression pointer\n");
	return 0;
}
