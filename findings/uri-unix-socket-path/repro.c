/* C28: with EVHTTP_URI_UNIX_SOCKET a socket path containing '/' is also taken as the URI path and
 * everything after the closing ':' (path, query, fragment) is dropped.
 * The documented form (event2/http.h) is  http://unix:/run/control.sock:/controller  */
#include <event2/http.h>
#include <stdio.h>
#include <string.h>
static const char *s(const char *x) { return x ? x : "(null)"; }
int main(void)
{
	const char *in = "http://unix:/tmp/sock:/index.html?q#f";
	char buf[256];
	struct evhttp_uri *u = evhttp_uri_parse_with_flags(in, EVHTTP_URI_UNIX_SOCKET);
	if (!u) { printf("rejected\n"); return 2; }
	printf("input      %s\n", in);
	printf("unixsocket %s   (expected /tmp/sock)\n", s(evhttp_uri_get_unixsocket(u)));
	printf("path       %s   (expected /index.html)\n", s(evhttp_uri_get_path(u)));
	printf("query      %s   (expected q)\n", s(evhttp_uri_get_query(u)));
	printf("fragment   %s   (expected f)\n", s(evhttp_uri_get_fragment(u)));
	printf("join       %s\n", s(evhttp_uri_join(u, buf, sizeof(buf))));
	{
		const char *p = evhttp_uri_get_path(u);
		int bad = !p || strcmp(p, "/index.html");
		evhttp_uri_free(u);
		printf(bad ? "DEFECT: components are not the components of the input\n" : "ok\n");
		return bad;
	}
}
