/* evbuffer_add_buffer_reference(dst, src) makes dst's chains hold a reference on the evbuffer `src`
 * (evbuffer_incref_(src), buffer.c:958).  Moving those chains back into src (evbuffer_add_buffer(src, dst))
 * leaves src holding a reference on itself: evbuffer_free(src) only drops the caller's reference, the buffer,
 * its chains and the referenced memory are never released and the reference's cleanup callback never runs. */
#include <event2/buffer.h>
#include <stdio.h>
static int cleaned;
static void cleanup(const void *d, size_t n, void *arg) { cleaned++; }
int main(void)
{
	static char mem[100];
	struct evbuffer *src = evbuffer_new(), *dst = evbuffer_new();
	evbuffer_add_reference(src, mem, sizeof mem, cleanup, NULL);
	evbuffer_add_buffer_reference(dst, src);
	evbuffer_add_buffer(src, dst);          /* src = original chain + a copy that keeps src itself alive */
	printf("src length %zu\n", evbuffer_get_length(src));
	evbuffer_free(dst);
	evbuffer_free(src);
	printf("cleanup callback ran %d time(s) after both buffers were freed (expected 1)\n", cleaned);
	return 0;
}
