#!/bin/sh
# builds against the ASan build of /repo made by the kit (run /verif/kit/build.sh asan first)
B=/verif/build/asan
cc -g -fsanitize=address -I $B/include -I /repo/include repro.c -o repro -L $B/lib -levent_core -lpthread && ASAN_OPTIONS=detect_leaks=0 ./repro
