/* C40: evutil_inet_ntop(AF_INET6) tests "strlen(buf) > len" instead of ">= len": with a buffer of exactly
 * strlen(text) bytes (no room for the NUL) it reports success and returns a TRUNCATED address text. */
#include <event2/util.h>
#include <arpa/inet.h>
#include <stdio.h>
#include <string.h>
int main(void)
{
	struct in6_addr a, back;
	char full[64], buf[64];
	const char *r;
	int bad;
	inet_pton(AF_INET6, "1::2", &a);
	evutil_inet_ntop(AF_INET6, &a, full, sizeof(full));
	r = evutil_inet_ntop(AF_INET6, &a, buf, strlen(full));     /* 4 bytes for "1::2" + NUL */
	printf("full text \"%s\" (%zu chars); with len=%zu evutil_inet_ntop returned %s%s%s\n", full, strlen(full),
	    strlen(full), r ? "\"" : "", r ? r : "NULL", r ? "\"" : "");
	bad = r != NULL && (inet_pton(AF_INET6, r, &back) != 1 || memcmp(&a, &back, 16));
	printf(bad ? "DEFECT: success reported but the text is not the address\n" : "ok\n");
	return bad;
}
