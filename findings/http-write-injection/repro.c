/* Standalone reproduction of the HTTP writer defects found by check C26: the octets evhttp puts on the wire.
 *   cc -I/verif/build/asan/include -I/repo/include repro.c -o repro -fsanitize=address \
 *      -L/verif/build/asan/lib -levent_extra -levent_core -lpthread
 *   ./repro reason | target | bodiless | stream10 | blankline
 */
#include <sys/socket.h>
#include <netinet/in.h>
#include <unistd.h>
#include <fcntl.h>
#include <stdio.h>
#include <string.h>
#include <event2/event.h>
#include <event2/http.h>
#include <event2/buffer.h>

static const char *mode = "reason";
static void show(const char *who, const char *p, ssize_t n)
{
	printf("%s: ", who);
	for (ssize_t i = 0; i < n; i++) if (p[i] == '\r') printf("\\r"); else if (p[i] == '\n') printf("\\n\n      "); else putchar(p[i]);
	printf("\n");
}
static void gen_cb(struct evhttp_request *req, void *arg)
{
	struct evbuffer *b = evbuffer_new();
	if (!strcmp(mode, "reason")) {            /* reason phrase supplied by the application (e.g. from upstream) */
		evhttp_send_reply(req, 200, "OK\r\nSet-Cookie: injected=1", b);
	} else if (!strcmp(mode, "blankline")) {  /* header value with an empty line before the continuation */
		printf("evhttp_add_header(out, \"X-Note\", \"a\\r\\n\\r\\n <html>injected body</html>\") = %d\n",
		    evhttp_add_header(evhttp_request_get_output_headers(req), "X-Note", "a\r\n\r\n <html>injected body</html>"));
		evhttp_send_reply(req, 200, "OK", b);
	} else if (!strcmp(mode, "bodiless")) {   /* same handler answers GET and HEAD */
		evbuffer_add_printf(b, "HTTP/1.1 200 OK\r\nContent-Length: 4\r\n\r\nEVIL");
		evhttp_send_reply(req, 200, "OK", b);
	} else {                                   /* stream10 */
		evhttp_send_reply_start(req, 200, "OK");
		evbuffer_add_printf(b, "chunk-one"); evhttp_send_reply_chunk(req, b);
		evhttp_send_reply_end(req);
	}
	evbuffer_free(b);
}
int main(int argc, char **argv)
{
	struct event_base *base = event_base_new();
	struct sockaddr_in sin; socklen_t sl = sizeof(sin);
	char buf[4096]; ssize_t r; int it, fd;
	if (argc > 1) mode = argv[1];
	if (!strcmp(mode, "target")) {             /* client side: evhttp_make_request with an attacker-influenced uri */
		int lfd = socket(AF_INET, SOCK_STREAM, 0), cfd = -1;
		struct evhttp_connection *ec; struct evhttp_request *rq;
		memset(&sin, 0, sizeof(sin)); sin.sin_family = AF_INET; sin.sin_addr.s_addr = htonl(INADDR_LOOPBACK);
		bind(lfd, (struct sockaddr *)&sin, sizeof(sin)); listen(lfd, 4); getsockname(lfd, (struct sockaddr *)&sin, &sl);
		fcntl(lfd, F_SETFL, O_NONBLOCK);
		ec = evhttp_connection_base_new(base, NULL, "127.0.0.1", ntohs(sin.sin_port));
		rq = evhttp_request_new(NULL, NULL);
		evhttp_add_header(evhttp_request_get_output_headers(rq), "Host", "h");
		printf("evhttp_make_request(..., EVHTTP_REQ_GET, \"/a HTTP/1.1\\r\\nHost: h\\r\\n\\r\\nGET /admin\") = %d\n",
		    evhttp_make_request(ec, rq, EVHTTP_REQ_GET, "/a HTTP/1.1\r\nHost: h\r\n\r\nGET /admin"));
		for (it = 0; it < 100; it++) {
			event_base_loop(base, EVLOOP_NONBLOCK);
			if (cfd < 0 && (cfd = accept(lfd, NULL, NULL)) >= 0) fcntl(cfd, F_SETFL, O_NONBLOCK);
			if (cfd >= 0 && (r = read(cfd, buf, sizeof(buf))) > 0) show("peer received", buf, r);
			usleep(1000);
		}
		return 0;
	}
	{
		struct evhttp *http = evhttp_new(base);
		struct evhttp_bound_socket *bs;
		const char *req = !strcmp(mode, "bodiless") ? "HEAD /a HTTP/1.1\r\nHost: h\r\n\r\n" :
		    !strcmp(mode, "stream10") ? "GET /a HTTP/1.0\r\nConnection: keep-alive\r\n\r\n" : "GET /a HTTP/1.1\r\nHost: h\r\n\r\n";
		evhttp_set_gencb(http, gen_cb, NULL);
		bs = evhttp_bind_socket_with_handle(http, "127.0.0.1", 0);
		getsockname(evhttp_bound_socket_get_fd(bs), (struct sockaddr *)&sin, &sl);
		fd = socket(AF_INET, SOCK_STREAM, 0); connect(fd, (struct sockaddr *)&sin, sizeof(sin));
		show("request", req, strlen(req));
		write(fd, req, strlen(req)); fcntl(fd, F_SETFL, O_NONBLOCK);
		for (it = 0; it < 100; it++) {
			event_base_loop(base, EVLOOP_NONBLOCK);
			if ((r = read(fd, buf, sizeof(buf))) > 0) show("server wrote", buf, r);
			usleep(1000);
		}
	}
	return 0;
}
