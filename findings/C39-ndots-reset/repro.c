/* C39: "options ndots:N" is forgotten when a "search" / "domain" line follows it in resolv.conf.
 * resolv_conf_parse_line() handles "search"/"domain" with search_postfix_clear(), which replaces
 * base->global_search_state by a fresh one whose ndots is 1 (evdns.c search_state_new()).
 * Expected (resolv.conf(5)): with ndots:2 the name "p.q" (1 dot) is tried with the search list first.
 * Observed: "p.q" is sent as is first, exactly as if ndots were 1; with the two lines swapped it works.
 */
#include <event2/event.h>
#include <event2/dns.h>
#include <event2/util.h>
#include <sys/socket.h>
#include <netinet/in.h>
#include <stdio.h>
#include <string.h>
#include <unistd.h>

static int nq;
static void ns_cb(evutil_socket_t fd, short what, void *arg)
{
	unsigned char b[512]; struct sockaddr_storage ss; socklen_t sl = sizeof ss;
	int n = recvfrom(fd, b, sizeof b, 0, (struct sockaddr *)&ss, &sl), j = 12;
	if (n < 12) return;
	printf("  query %d:", ++nq);
	while (j < n && b[j]) { printf(" %.*s", b[j], b + j + 1); j += b[j] + 1; }
	printf("\n");
	b[2] |= 0x80; b[3] = 0x83; /* NXDOMAIN */
	sendto(fd, b, j + 5, 0, (struct sockaddr *)&ss, sl);
}
static void done_cb(int err, char type, int count, int ttl, void *a, void *arg) { event_base_loopbreak(arg); }

static void run(const char *conf)
{
	struct event_base *base = event_base_new();
	struct evdns_base *dns = evdns_base_new(base, 0);
	struct sockaddr_in sin; socklen_t sl = sizeof sin;
	int fd = socket(AF_INET, SOCK_DGRAM, 0);
	FILE *f = fopen("repro-resolv.conf", "w");
	fputs(conf, f); fclose(f);
	memset(&sin, 0, sizeof sin); sin.sin_family = AF_INET; sin.sin_addr.s_addr = htonl(0x7f000001);
	bind(fd, (struct sockaddr *)&sin, sizeof sin); getsockname(fd, (struct sockaddr *)&sin, &sl);
	event_add(event_new(base, fd, EV_READ | EV_PERSIST, ns_cb, NULL), NULL);
	printf("resolv.conf:\n%s", conf);
	evdns_base_resolv_conf_parse(dns, DNS_OPTION_SEARCH | DNS_OPTION_MISC, "repro-resolv.conf");
	evdns_base_nameserver_sockaddr_add(dns, (struct sockaddr *)&sin, sizeof sin, 0);
	nq = 0;
	evdns_base_resolve_ipv4(dns, "p.q", 0, done_cb, base);
	event_base_dispatch(base);
	unlink("repro-resolv.conf");
}
int main(void)
{
	run("options ndots:2\nsearch a.example\n");   /* BUG: p.q asked first */
	run("search a.example\noptions ndots:2\n");   /* ok: p.q.a.example asked first */
	return 0;
}
