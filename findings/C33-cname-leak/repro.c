/* C33: reply_parse() leaks the strdup'ed CNAME (requests made with DNS_CNAME_CALLBACK).
 * reply.cname = mm_strdup(cname) is executed for every CNAME record of the answer section; the string is
 * only handed over (and later freed) when the reply is accepted.  A reply with a CNAME but no address
 * record (NODATA path), a reply that fails to parse after the CNAME, or a reply with several CNAMEs
 * (each overwrites the previous pointer) leaks it.  Here: one CNAME-only reply, then two CNAMEs + A. */
#include <event2/event.h>
#include <event2/dns.h>
#include <sys/socket.h>
#include <netinet/in.h>
#include <stdio.h>
#include <stdlib.h>
#include <string.h>
#include <unistd.h>

static long live;
static void *m_malloc(size_t n) { void *p = malloc(n); if (p) live++; return p; }
static void *m_realloc(void *p, size_t n) { if (!p) live++; return realloc(p, n); }
static void m_free(void *p) { if (p) live--; free(p); }
static void done(int err, char type, int count, int ttl, void *a, void *arg) { printf("  callback: err=%d type=%d count=%d\n", err, type, count); }

static long run(const unsigned char *ans, int anlen, int ancount)
{
	long before = live;
	struct event_base *base = event_base_new();
	struct evdns_base *dns = evdns_base_new(base, 0);
	struct sockaddr_in sin; struct sockaddr_storage from; socklen_t sl = sizeof sin, fl = sizeof from;
	unsigned char b[512]; int fd = socket(AF_INET, SOCK_DGRAM, 0), n, i;
	memset(&sin, 0, sizeof sin); sin.sin_family = AF_INET; sin.sin_addr.s_addr = htonl(0x7f000001);
	bind(fd, (struct sockaddr *)&sin, sizeof sin); getsockname(fd, (struct sockaddr *)&sin, &sl);
	evdns_base_nameserver_sockaddr_add(dns, (struct sockaddr *)&sin, sizeof sin, 0);
	evdns_base_set_option(dns, "randomize-case", "0");
	evdns_base_resolve_ipv4(dns, "ab.cd", DNS_QUERY_NO_SEARCH | DNS_CNAME_CALLBACK, done, NULL);
	event_base_loop(base, EVLOOP_NONBLOCK);
	n = recvfrom(fd, b, sizeof b, 0, (struct sockaddr *)&from, &fl);
	b[2] = 0x81; b[3] = 0x80; b[7] = ancount;              /* response, ANCOUNT */
	memcpy(b + n, ans, anlen);
	sendto(fd, b, n + anlen, 0, (struct sockaddr *)&from, fl);
	for (i = 0; i < 5; i++) { usleep(1000); event_base_loop(base, EVLOOP_NONBLOCK); }
	evdns_base_free(dns, 0); event_base_free(base); close(fd);
	return live - before;
}
int main(void)
{
	static const unsigned char cname[] = {0xc0,12,0,5,0,1,0,0,0,50,0,5,2,'e','f',0xc0,12};
	static const unsigned char a[] = {0xc0,12,0,1,0,1,0,0,1,44,0,4,1,2,3,4};
	unsigned char two[64];
	struct event_base *w;
	event_set_mem_functions(m_malloc, m_realloc, m_free);
	w = event_base_new(); evdns_base_free(evdns_base_new(w, 0), 0); event_base_free(w);   /* one-time allocations */
	printf("reply with one A record:\n"); printf("  allocations not freed: %ld\n", run(a, sizeof a, 1));
	printf("reply with one CNAME and no address:\n"); printf("  allocations not freed: %ld\n", run(cname, sizeof cname, 1));
	memcpy(two, cname, sizeof cname); memcpy(two + sizeof cname, cname, sizeof cname); memcpy(two + 2 * sizeof cname, a, sizeof a);
	printf("reply with two CNAMEs and one A record:\n"); printf("  allocations not freed: %ld\n", run(two, 2 * sizeof cname + sizeof a, 3));
	return 0;
}
